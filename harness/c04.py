"""C04: written HDF5 files conform to BIOM 2.1; the CSR and CSC copies agree.

Every case builds a real table (all C01 layouts, plus empty-axis tables 0xM / Nx0 / 0x0 and all-zero
tables), writes it (Table.to_hdf5, biom_open, save_table, or `biom convert --to-hdf5` through its
python entry point), reads the file with RAW h5py into a plain tree (compared with the tree of the
Coq model) and hands it to harness/spec_decoder.py, an independent decoder written from
biom-2.1.rst (compared with the Coq spec decoder and, by the oracle, with the source table)."""
import os

from . import h5util as U
from . import spec_decoder
from . import tables
from .core import jhash

ID = 'C04'
RULE = ('the C01 table generator (dims 1..6, thorough 1..12; all value kinds, id alphabets, metadata kinds, layout recipes incl. '
        'in-place stored zeros / reversed segments in CSR and CSC, compress on/off) plus empty-axis tables 0xM, Nx0, 0x1, 1x0, '
        '0x0, all-zero tables, `biom convert --to-hdf5` through its helper AND through the real click command (JSON / TSV input, --table-type, '
        '--collapsed-*, --process-obs-metadata, -m), load-and-write-again histories (also from a BIOM 2.0 file), shipped files, an earlier to_hdf5 with custom format_fs, ids handed '
        'over as object array / pandas Index / Series / tuple / np.str_ list, and a stream of tables the writer must refuse; the raw '
        'h5py tree of every file is compared with the model tree and decoded by the independent spec decoder; every case '
        'writes and decodes a file (all-zero and empty-axis tables are the boundary cases the property names); distinct by case hash')
TRUSTED = ['hand-written model coq/Model/Hdf5.v + coq/Model/Sparse.v tied to biom/table.py by this correspondence run '
           '(raw h5py tree of every written file == model tree, spec decoder results equal)',
           'harness/spec_decoder.py: independent reading of doc/documentation/format_versions/biom-2.1.rst (its reading of the rst is stated in its docstring)',
           'h5py / HDF5 / gzip filter', 'for the command-line cases: load_table on the JSON / TSV input (subject of C02 / C03) and Table.add_metadata (C18) build the expected table',
           'extraction (ExtrOcamlBasic only) + ocaml/driver_tail.ml, cross-checked against vm_compute on a sample']
ASSUMPTIONS = ['the rst prints (M+1,) for observation/matrix/indptr and (N+1,) for sample/matrix/indptr; offsets of compressed rows number rows+1 = N+1: '
               'the two sizes are read as swapped',
               'an ids dataset of length 0 has no element, its element kind (float64, h5py cannot create an empty string dataset) is not constrained',
               'type "" stands for "no type" (the attribute is required, a type is not)',
               'metadata as in C01 (homogeneous categories, names that survive the slash escape)']

from . import regen_h5 as _regen_h5
# py2v_h5: regenerate coq/Gen/Hdf5Gen.v (Table.to_hdf5) from the source first
regenerate = _regen_h5.hook(TRUSTED)

_STATE = {}


def _build(case):
    t = U.build_table(case)
    st = U.state_of(t)
    _STATE[jhash(case)] = st
    return t, st


def _state(case):
    k = jhash(case)
    if k not in _STATE:
        _build(case)
    return _STATE[k]


def _genby2(case):
    return case['genby'] + ' / second write'


def _genby(case):
    if case.get('writer') in ('convert', 'convert_cli'):
        from biom.parse import generatedby
        return generatedby()
    return case['genby']


FIXTURES = ['biom/tests/test_data/test.biom', 'biom/tests/test_cli/test_data/test.biom', 'biom/tests/test_data/empty.biom',
            'biom/tests/test_data/test_grp_metadata.biom', 'biom/tests/test_data/edgecase_issue_952.biom',
            'examples/min_sparse_otu_table_hdf5.biom', 'examples/rich_sparse_otu_table_hdf5.biom',
            'examples/rich_sparse_otu_table_hdf5_group_metadata.biom']
_LATER = {}       # case hash -> model input for the table that was loaded and is written again
_SRC = {}         # fixture cases: what the library's reader made of the shipped file


def _plain_spec(t):
    """spec (python values) of a real table, for the domain predicate and the oracle"""
    sp = U.spec_of_table(t)
    for ax in ('omd', 'smd'):
        if sp[ax] is not None:
            sp[ax] = [{k: tables.plain(v) for k, v in m.items()} for m in sp[ax]]
    d = t.matrix_data.copy()
    import numpy as np
    sp['mat'] = np.asarray(d.todense(), dtype=float).reshape(d.shape).tolist()
    sp['ogmd'] = None if not sp['ogmd'] else {k: ['', v] if isinstance(v, str) else list(v) for k, v in sp['ogmd'].items()}
    sp['sgmd'] = None if not sp['sgmd'] else {k: ['', v] if isinstance(v, str) else list(v) for k, v in sp['sgmd'].items()}
    return sp


def _source(case):
    """the table whose file is under test, as a spec"""
    if case.get('kind') == 'fixture' or case.get('writer') == 'convert_cli':
        if jhash(case) not in _SRC:
            run_impl(case)
        return _SRC[jhash(case)]
    return case['spec']


def _cli_expected(case, inp):
    """what `biom convert --to-hdf5` has to write, computed WITHOUT the command: the table the library reads
    from the input file, then the documented meaning of every option applied here"""
    import biom
    cli = case['cli']
    t = biom.load_table(inp)
    if cli.get('mapping'):                      # -m: sample metadata from a mapping file
        t.add_metadata({k: dict(v) for k, v in cli['mapping'].items()}, 'sample')
    if cli.get('process'):                      # --process-obs-metadata: the first category, split on ';' unless naive
        key = list(t.metadata(axis='observation')[0].keys())[0]
        f = (lambda x: x) if cli['process'] == 'naive' else (lambda x: [e.strip() for e in x.split(';')])
        t.add_metadata({i: {key: f(m[key])} for i, m in zip(t.ids(axis='observation'), t.metadata(axis='observation'))},
                       'observation')
    for ax, attr in (('observation', '_observation_metadata'), ('sample', '_sample_metadata')):
        if ax in cli.get('collapsed', []):      # --collapsed-*: the keys of each metadata entry are the collapsed ids
            setattr(t, attr, [{'collapsed_ids': sorted(m.keys())} for m in t.metadata(axis=ax)])
            t._cast_metadata()
    t.type = cli.get('table_type') or (t.type if t.type not in (None, 'None') else 'Table')
    return t


def _cli_convert(case, out):
    """the real command, in process.  The group's close callback closes fd 1: the standard descriptors are
    saved and restored around the call.  -> (the expected table, the exception the command ended with | None)"""
    import shutil
    import tempfile
    from biom.cli import cli as group
    cli = case['cli']
    t0 = U.build_table(case)
    d = tempfile.mkdtemp(prefix='cli-', dir=U.tmpdir())
    try:
        inp = os.path.join(d, 'in.txt')
        with open(inp, 'w', encoding='utf-8') as f:
            if cli['input'] == 'json':
                f.write(t0.to_json('harness'))
            else:
                key = cli.get('tsv_key')
                f.write(t0.to_tsv(header_key=key, header_value=key,
                                  metadata_formatter=(lambda x: '; '.join(x) if isinstance(x, list) else str(x))))
        args = ['convert', '-i', inp, '-o', out, '--to-hdf5']
        if cli.get('table_type'):
            args += ['--table-type', cli['table_type']]
        for ax in cli.get('collapsed', []):
            args.append('--collapsed-observations' if ax == 'observation' else '--collapsed-samples')
        if cli.get('process'):
            args += ['--process-obs-metadata', cli['process']]
        if cli.get('mapping'):
            mp = os.path.join(d, 'map.txt')
            cols = list(next(iter(cli['mapping'].values())))
            with open(mp, 'w', encoding='utf-8') as f:
                f.write('#SampleID\t' + '\t'.join(cols) + '\n')
                for sid, row in cli['mapping'].items():
                    f.write(sid + '\t' + '\t'.join(row[c] for c in cols) + '\n')
            args += ['-m', mp]
        expected = _cli_expected(case, inp)
        saved = [os.dup(k) for k in (0, 1, 2)]
        err = None
        try:
            try:
                group.main(args=args, standalone_mode=False)
            except BaseException as e:       # click may raise SystemExit / Abort
                err = e
        finally:
            for k, fd in enumerate(saved):
                os.dup2(fd, k)
                os.close(fd)
        return expected, err
    finally:
        shutil.rmtree(d, ignore_errors=True)


def _in_domain(case):
    sp = _source(case)
    return U.in_domain(dict(case, spec=sp)) and (sp.get('type') is None or sp['type'] in U.VOCAB)


def _validator_applies(case):
    """the library's validator is one more observable for every file (user-block files: F46, time-zone aware
    creation dates: F47, both repaired); it only needs a vocabulary type and a populated generated-by, which
    _decoded checks on the file itself"""
    return True


def _date_seen(text, masked):
    if masked and text is not None and U.now_or(['datetime', text]) == ['datetime', U.NOW]:
        return U.NOW
    return text


def _decoded(path, mask_date=False, validate=True):
    tree, comp = U.raw_tree(path, mask_date=mask_date)
    try:
        rep = spec_decoder.decode(path)
    except Exception as e:      # the decoder must not hide a malformed file behind its own crash
        rep = {'problems': ['spec decoder could not read the file: %s: %s' % (type(e).__name__, str(e)[:120])],
               'csr': None, 'csc': None, 'shape': None, 'nnz': None, 'ids': {}, 'md_entries': {}, 'attrs': {}}
    extra = {}
    if validate and (rep.get('attrs') or {}).get('type') in U.VOCAB and (rep.get('attrs') or {}).get('generated-by', '').strip():
        # one more observable: files the library writes for a table with a vocabulary type pass its own validator
        try:
            from biom.cli.table_validator import _validate_table
            ok, lines = _validate_table(path)
            extra['validates'] = bool(ok)
            if not ok:
                extra['validator_says'] = [str(x)[:120] for x in lines][:3]
        except Exception as e:
            extra['validates'], extra['validator_says'] = False, ['validator crashed: %s: %s' % (type(e).__name__, str(e)[:100])]
    return {**extra, 'write': 'ok', 'file': tree,
            'spec': {'problems': rep['problems'], 'csr': rep['csr'], 'csc': rep['csc']},
            'seen': {'shape': rep['shape'], 'nnz': rep['nnz'], 'ids': rep['ids'], 'md_entries': rep['md_entries'],
                     'type': (rep.get('attrs') or {}).get('type'), 'generated-by': (rep.get('attrs') or {}).get('generated-by'),
                     'creation-date': _date_seen((rep.get('attrs') or {}).get('creation-date'), mask_date)}}


def run_impl(case):
    import biom
    import h5py
    import numpy as np
    fixture = case.get('kind') == 'fixture'
    cli = case.get('writer') == 'convert_cli'
    if cli:
        path = U.tmpfile()
        try:
            t, err = _cli_convert(case, path)
            _STATE[jhash(case)] = U.enc_table_state(t)
            # the oracle's source: ids and matrix of the ORIGINAL table, type and metadata as the options demand
            _SRC[jhash(case)] = dict(_plain_spec(t), oids=list(case['spec']['oids']), sids=list(case['spec']['sids']),
                                     mat=[list(r) for r in case['spec']['mat']])
            if err is not None:
                return {'write': ['err', tables.err_code(err) if isinstance(err, Exception) else 9]}
            out = _decoded(path, mask_date=True)
            out['in_domain'] = _in_domain(case)
            return out
        finally:
            if os.path.exists(path):
                os.remove(path)
    try:
        if fixture:
            from .core import REPO
            t = biom.load_table(os.path.join(REPO, case['file']))
            _STATE[jhash(case)] = U.enc_table_state(t)
            _SRC[jhash(case)] = _plain_spec(t)
        else:
            t, st = _build(case)
    except Exception as e:
        return {'build': ['err', tables.err_code(e), type(e).__name__, str(e)[:200]]}
    path = U.tmpfile()
    path2 = U.tmpfile()
    try:
        try:
            U.write_table(t, case, path)
        except Exception as e:
            return {'write': ['err', tables.err_code(e)]}
        # (the validator takes an HDF5 file with a user block for JSON and crashes: reported for C15, skipped here)
        out = _decoded(path, mask_date=not U.dated(case), validate=_validator_applies(case))
        out['in_domain'] = _in_domain(case)
        if case.get('history'):
            # history: the file is loaded (optionally after being stamped as a BIOM 2.0 file, whose group layout
            # is the same) and the loaded table is written again
            try:
                with h5py.File(path, 'r+') as f:
                    if case['history'] == 'reload20':
                        f.attrs['format-version'] = np.array([2, 0])
                    if case.get('foreign_date'):
                        # a file some other tool wrote: its date is not ISO 8601, the reader keeps it as raw text
                        f.attrs['creation-date'] = case['foreign_date']
                t1 = biom.load_table(path)
                _LATER[jhash(case)] = U.enc_table_state(t1)
                U.write_table(t1, case, path2, genby=_genby2(case))      # asked to record ANOTHER generated-by
                out['later'] = _decoded(path2, mask_date=not U.dated(case), validate=_validator_applies(case))
            except Exception as e:
                _LATER.setdefault(jhash(case), None)
                out['later'] = {'write': ['err', tables.err_code(e), type(e).__name__]}
        return out
    finally:
        for p in (path, path2):
            if os.path.exists(p):
                os.remove(p)


def encode(case):
    date = case['date'] if U.dated(case) else U.NOW
    k = jhash(case)
    if case.get('kind') == 'fixture' or case.get('writer') == 'convert_cli':
        if k not in _STATE:
            run_impl(case)
        tree = [_STATE[k], U.cps(_genby(case)), U.cps(date)]
    else:
        tree = [U.enc_state(case, _state(case)), U.cps(_genby(case)), U.cps(date)]
    if case.get('history'):
        if k not in _LATER:
            run_impl(case)
        if _LATER.get(k) is not None:
            tree.append([[_LATER[k], U.cps(_genby2(case)), U.cps(date)]])
    return tree


def _dec_part(w, csr_t, csc_t, validate=True):
    if w[0] == -1:
        return {'write': ['err', w[1]]}
    f = U.dec_h5(w[1])
    mat = lambda o: None if not o else [[U.unbig(v) for v in row] for row in o[0]]
    csr, csc = mat(csr_t), mat(csc_t)
    # 'seen' restates the written tree in the decoder's terms (shape, nnz, ids, entries per category)
    def ids(ax):
        d = f['dsets'].get('%s/ids' % ax)
        return None if d is None else ([x[2:] for x in d['data']] if d['kind'] == 'vstr' else [])
    def ents(ax):
        pre = '%s/metadata/' % ax
        return {k[len(pre):]: v['shape'] for k, v in f['dsets'].items() if k.startswith(pre)}
    extra = {'validates': True} if validate and f['attrs']['type'][1][2:] in U.VOCAB and f['attrs']['generated-by'][1][2:].strip() else {}
    return {**extra, 'write': 'ok', 'file': f,
            'spec': {'problems': [] if csr is not None and csc is not None else ['model: the Coq spec decoder refuses the file'],
                     'csr': csr, 'csc': csc},
            'seen': {'shape': f['attrs']['shape'][1], 'nnz': f['attrs']['nnz'][1], 'type': f['attrs']['type'][1][2:],
                     'generated-by': f['attrs']['generated-by'][1][2:], 'creation-date': f['attrs']['creation-date'][1][2:],
                     'ids': {'observation': ids('observation'), 'sample': ids('sample')},
                     'md_entries': {'observation': ents('observation'), 'sample': ents('sample')}}}


def decode(tree, case):
    val = _validator_applies(case)
    out = _dec_part(tree[0], tree[1], tree[2], val)
    if out.get('write') != 'ok':
        return out
    out['in_domain'] = bool(tree[3])
    if case.get('history') and len(tree) > 4 and tree[4]:
        out['later'] = _dec_part(*tree[4][0], val)
    return out


# ---------------------------------------------------------------- oracle: the property text
def _check(s, part, label='', genby=None, date=None):
    n, m = len(s['oids']), len(s['sids'])
    fails = [label + 'not BIOM 2.1: ' + p for p in part['spec']['problems']]
    seen = part['seen']
    if genby is not None and seen.get('generated-by') != genby:
        fails.append(label + 'generated-by attribute %r, the writer was asked to record %r' % (seen.get('generated-by'), genby))
    if date is not None and seen.get('creation-date') != date:
        fails.append(label + 'creation-date attribute %r, the writer was asked to record %s'
                     % (seen.get('creation-date'), 'the current time (ISO 8601)' if date == U.NOW else repr(date)))
    if part.get('validates') is False:
        fails.append(label + 'the library\'s own validator rejects the file: %s' % (part.get('validator_says'),))
    if seen['shape'] != [n, m]:
        fails.append(label + 'shape attribute %s, the table is %d x %d' % (seen['shape'], n, m))
    true_nnz = sum(1 for row in s['mat'] for v in row if v != 0)
    if seen['nnz'] != true_nnz:
        fails.append(label + 'nnz attribute %s, the table has %d non-zero cells' % (seen['nnz'], true_nnz))
    if seen.get('type') != (s.get('type') or ''):
        fails.append(label + 'type attribute %r, the table type is %r' % (seen.get('type'), s.get('type')))
    want = [[U.fbits(v) for v in row] for row in s['mat']] if m else [[] for _ in range(n)]
    for k, lab in (('csr', 'observation (compressed row)'), ('csc', 'sample (compressed column)')):
        got = part['spec'][k]
        if got is not None and m == 0:
            got = [[] for _ in got]
        if got != want:
            fails.append(label + 'the %s copy decodes to %s, the table matrix is %s' % (lab, str(got)[:120], str(want)[:120]))
    for ax, ids, md in (('observation', s['oids'], s.get('omd')), ('sample', s['sids'], s.get('smd'))):
        if seen['ids'].get(ax) != list(ids):
            fails.append(label + '%s/ids holds %s, the axis ids are %s' % (ax, seen['ids'].get(ax), ids))
        cats = {k for row in (md or []) for k in (row or {})}
        got = seen['md_entries'].get(ax) or {}
        if {c.replace('@@SLASH@@', '/') for c in got} != cats:
            fails.append(label + '%s/metadata has datasets %s for categories %s' % (ax, sorted(got), sorted(cats)))
        for c, shape in got.items():
            if not shape or shape[0] != len(ids):
                fails.append(label + '%s/metadata/%s has shape %s for %d ids' % (ax, c, shape, len(ids)))
    return fails


def oracle(case, obs):
    if 'build' in obs:
        return ['could not build the source table: %s' % (obs['build'],)]
    if obs.get('write') != 'ok':
        if case.get('expect') == 'refuse':
            return []           # refused, as it must be (which exception: compared with the model)
        return ['writing a table of the property domain failed: %s' % (obs.get('write'),)]
    s = _source(case)
    date = case['date'] if U.dated(case) else U.NOW
    fails = _check(s, obs, '', _genby(case), date)
    if case.get('expect') == 'refuse':
        fails = ['written although the format cannot represent the table (%s), and the file does not decode to it: %s'
                 % (case.get('refusal'), f) for f in fails] or \
                ['written although the model of the writer refuses it (%s); the file happens to decode' % case.get('refusal')]
    if case.get('history'):
        later = obs.get('later') or {}
        lab = 'file written from the table loaded back%s: ' % (' from a BIOM 2.0 file' if case['history'] == 'reload20' else '')
        if later.get('write') != 'ok':
            fails.append(lab + 'writing failed: %s' % (later.get('write'),))
        else:
            fails += _check(s, later, lab, _genby2(case), date)
    return fails[:4]


# ---------------------------------------------------------------- generation
def gen(rng, tier):
    quick = tier == 'quick'
    k = 1 if quick else 10
    md = 6 if quick else 12
    def hist(c):
        c.pop('gen2', None)
        if rng.random() < 0.35:
            c['history'] = rng.choice(['reload', 'reload20', 'reload20'])
            if rng.random() < 0.5:
                c['foreign_date'] = rng.choice(['24 Aug 2015, 10:15', 'Mon Aug 24 10:15:00 2015', ''])
        return c
    for f in FIXTURES:      # shipped files (BIOM 2.0 and 2.1): load, write, decode
        yield {'kind': 'fixture', 'file': f, 'genby': 'fixture', 'date': '2014-07-29T16:16:36.617320', 'compress': bool(rng.getrandbits(1)),
               'writer': rng.choice(['to_hdf5', 'save_table'])}
    for i in range(200 * k):
        yield hist(U.rand_case(rng, md))
    for i in range(60 * k):
        yield hist(U.rand_case(rng, md, empty_axis=True))
    for i in range(40 * k):
        yield hist(U.rand_case(rng, md, all_zero=True))
    for i in range(40 * k):            # what the format cannot represent has to be refused
        yield _refusal_case(rng, md, REFUSALS[i % len(REFUSALS)])
    for i in range(40 * k):            # the real command line (click wrapper), in process
        yield _cli_case(rng, md)
    for i in range(40 * k):
        c = U.rand_case(rng, md, writer='convert', empty_axis=rng.random() < 0.1)
        c['spec']['type'] = rng.choice(U.VOCAB)     # --table-type; see docs/C04.md for the default
        c['compress'] = True                        # write_biom_table uses the default
        c.pop('gen2', None)
        yield c


def _cli_case(rng, max_dim):
    """a `biom convert ... --to-hdf5` command line: input JSON or TSV, table type, collapsed axes,
    observation-metadata processing, sample mapping file"""
    c = U.rand_case(rng, max_dim, writer='convert_cli', empty_axis=False)
    for k in ('gen2', 'np_md', 'prelude', 'md_edit'):
        c.pop(k, None)
    s = c['spec']
    s['layout'] = ['dense']
    s['ogmd'] = s['sgmd'] = None           # neither text format carries group metadata
    mk = tables.ALPHABETS[rng.choice(['short', 'short', 'long', 'latin1', 'cjk'])]
    s['oids'] = [mk(rng, i, 'o') for i in range(len(s['oids']))]
    s['sids'] = [mk(rng, i, 's') for i in range(len(s['sids']))]
    s['mat'] = [[(tables.rand_value(rng, rng.choice(['counts', 'signed', 'dyadic'])) if v else 0.0) for v in row] for row in s['mat']]
    cli = {'input': rng.choice(['json', 'json', 'tsv']), 'table_type': rng.choice(U.VOCAB + [None]), 'collapsed': [],
           'process': None, 'mapping': None}
    r, n = len(s['oids']), len(s['sids'])
    tax = lambda: '; '.join('%s__%s' % (rng.choice('kpcofgs'), rng.choice(['A', 'Bé', 'C c'])) for _ in range(rng.randint(1, 3)))
    if cli['input'] == 'tsv':
        s['smd'] = None
        s['type'] = None
        kind = rng.choice(['none', 'tax', 'descr'])
        if kind == 'tax':
            s['omd'] = [{'taxonomy': tax().split('; ')} for _ in range(r)]
            cli['tsv_key'], cli['process'] = 'taxonomy', rng.choice(['taxonomy', 'sc_separated'])
        elif kind == 'descr':
            s['omd'] = [{'Description': rng.choice(['a', 'b c', 'ü', 'x;y'])} for _ in range(r)]
            cli['tsv_key'], cli['process'] = 'Description', rng.choice([None, 'naive'])
        else:
            s['omd'], cli['tsv_key'] = None, None
    else:
        kind = rng.choice(['asis', 'collapsed', 'collapsed', 'process'])
        if kind == 'collapsed':
            axes = rng.choice([['observation'], ['sample'], ['observation', 'sample']])
            cli['collapsed'] = axes
            members = lambda i: {'m%d_%d' % (i, j): rng.choice(['x', 'y']) for j in range(rng.randint(1, 3))}
            if 'observation' in axes:
                s['omd'] = [members(i) for i in range(r)]
            if 'sample' in axes:
                s['smd'] = [members(i) for i in range(n)]
        elif kind == 'process':
            s['omd'] = [{'lineage': tax()} for _ in range(r)]
            cli['process'] = rng.choice(['sc_separated', 'taxonomy', 'naive'])
            if cli['process'] != 'naive':
                s['omd'] = [{'KEGG_Pathways': m['lineage']} for m in s['omd']]      # a list category after processing
    if rng.random() < 0.4 and 'sample' not in cli['collapsed'] and n:
        cols = rng.choice([['Treatment'], ['Treatment', 'pH'], ['body site']])
        cli['mapping'] = {sid: {col: rng.choice(['Control', 'Fast', '7.5', 'gut é', 'a b']) for col in cols} for sid in s['sids']}
        if s.get('smd') and any(col in s['smd'][0] for col in cols):
            cli['mapping'] = None
    c['cli'], c['compress'] = cli, True
    return c


REFUSALS = ['cleared-through-accessor', 'first-fewer', 'first-more', 'disjoint', 'only-later-ids', 'only-first-id', 'some-missing',
            'flat-taxonomy-and-none', 'text-under-list-category']


def _refusal_case(rng, max_dim, kind):
    """a table the format cannot represent: categories differ between the ids of an axis, metadata only on some
    ids, flat taxonomy text next to None, text under a list category.  The writer has to refuse it (the model
    says which exception); a file that is written all the same has to decode to the table."""
    c = U.rand_case(rng, max_dim)
    for k in ('gen2', 'np_md', 'history', 'md_edit'):
        c.pop(k, None)
    s = c['spec']
    s['omd'] = s['smd'] = None
    ax = rng.choice(['omd', 'smd'])
    n = len(s['oids'] if ax == 'omd' else s['sids'])
    if n < 2:
        s['oids'], s['sids'], s['mat'], s['layout'] = ['o1', 'o2'], ['s1', 's2'], [[1.0, 0.0], [0.0, 2.0]], ['dense']
        n = 2
    val = lambda: rng.choice(['x', 'y z', 3, 0.5, True])
    j = rng.randrange(1, n)
    if kind == 'cleared-through-accessor':
        before = [{'a': 'x', 'b': i} for i in range(n)]
        ids = sorted(rng.sample(range(n), rng.randint(1, n - 1)))
        c['md_edit'] = {'axis': ax, 'mode': 'clear_some', 'ids': ids, 'before': before}
        rows = [{} if i in ids else dict(m) for i, m in enumerate(before)]
    elif kind == 'first-fewer':
        rows = [{'a': 'x'} for _ in range(n)]
        rows[j]['b'] = val()
        if rng.random() < 0.5:
            rows = [dict(r, b=val()) if i else r for i, r in enumerate(rows)]      # every later id has the extra one
    elif kind == 'first-more':
        rows = [{'a': 'x', 'b': 'y'}] + [{'a': 'x'} for _ in range(n - 1)]
    elif kind == 'disjoint':
        rows = [{'a': 1}] + [{'b': 2} for _ in range(n - 1)]
    elif kind == 'only-later-ids':
        rows = [None] + [{'a': val()} for _ in range(n - 1)]
    elif kind == 'only-first-id':
        rows = [{'a': val()}] + [None for _ in range(n - 1)]
    elif kind == 'some-missing':
        rows = [{'a': 'x'} for _ in range(n)]
        rows[j] = rng.choice([None, {}])
    elif kind == 'flat-taxonomy-and-none':
        rows = [{'taxonomy': 'k__A; p__B'} for _ in range(n)]
        rows[rng.randrange(n)] = {'taxonomy': None}
    else:
        rows = [{rng.choice(['collapsed_ids', 'KEGG_Pathways']): 'x'} for _ in range(n)]
    s[ax] = rows
    c['expect'] = 'refuse'
    c['refusal'] = kind
    return c


def nontrivial(case):
    return True        # every case is a file written by the library and decoded by the independent decoder


def classify(case):
    if case.get('expect') == 'refuse':
        return ['kind:refusal', 'refusal:%s' % case.get('refusal')]
    if case.get('kind') == 'fixture':
        return ['kind:fixture', 'theorem-domain:%s' % ('inside' if _in_domain(case) else 'outside')]
    if case.get('writer') == 'convert_cli':
        cli = case['cli']
        return U.classify_case(case) + ['cli-input:%s' % cli['input'], 'cli-table-type:%s' % ('given' if cli.get('table_type') else 'absent'),
                                        'cli-collapsed:%s' % ('+'.join(cli.get('collapsed') or []) or 'no'),
                                        'cli-process-obs-metadata:%s' % cli.get('process'), 'cli-mapping:%s' % bool(cli.get('mapping')),
                                        'theorem-domain:%s' % ('inside' if _in_domain(case) else 'outside')]
    return U.classify_case(case) + [U.layout_tag(_state(case)), 'theorem-domain:%s' % ('inside' if _in_domain(case) else 'outside'),
                                    'history:%s' % (case.get('history') or 'write'), 'ids-given-as:%s' % (case.get('ids_as') or 'list'),
                                    'earlier-write-with-format_fs:%s' % bool(case.get('prelude')),
                                    'live-metadata-edited:%s' % ((case.get('md_edit') or {}).get('mode') or 'no')]


def shrink(case):
    if case.get('expect') == 'refuse':
        return
    if case.get('kind') == 'fixture':
        return
    if case.get('writer') == 'convert_cli':
        cli = case['cli']
        for k, v in (('mapping', None), ('table_type', None)):
            if cli.get(k):
                yield dict(case, cli=dict(cli, **{k: v}))
        return
    if case.get('history'):
        yield {k: v for k, v in case.items() if k != 'history'}
        if case['history'] == 'reload20':
            yield dict(case, history='reload')
    from . import c01
    for c in c01.shrink(case):
        yield c
    s = case['spec']
    if len(s['oids']) == 1 and s.get('omd') is None:
        yield dict(case, spec=dict(s, oids=[], mat=[], layout=['dense']))
    if len(s['sids']) == 1 and s.get('smd') is None:
        yield dict(case, spec=dict(s, sids=[], mat=[[] for _ in s['oids']], layout=['dense']))


SIGNATURES = {}
