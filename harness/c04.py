"""C04: written HDF5 files conform to BIOM 2.1; the CSR and CSC copies agree.

Every case builds a real table (all C01 layouts, plus empty-axis tables 0xM / Nx0 / 0x0 and all-zero
tables), writes it (Table.to_hdf5, biom_open, save_table, or `biom convert --to-hdf5` through its
python entry point), reads the file with RAW h5py into a plain tree (compared with the tree of the
Coq model) and hands it to harness/spec_decoder.py, an independent decoder written from
biom-2.1.rst (compared with the Coq spec decoder and, by the oracle, with the source table)."""
import os

from . import h5util as U
from . import spec_decoder
from . import tables
from .core import jhash

ID = 'C04'
RULE = ('the C01 table generator (dims 1..6, thorough 1..12; all value kinds, id alphabets, metadata kinds, layout recipes incl. '
        'in-place stored zeros / reversed segments in CSR and CSC, compress on/off) plus empty-axis tables 0xM, Nx0, 0x1, 1x0, '
        '0x0, all-zero tables and `biom convert --to-hdf5` (python entry point, table type from the vocabulary); the raw '
        'h5py tree of every file is compared with the model tree and decoded by the independent spec decoder; every case '
        'writes and decodes a file (all-zero and empty-axis tables are the boundary cases the property names); distinct by case hash')
TRUSTED = ['hand-written model coq/Model/Hdf5.v + coq/Model/Sparse.v tied to biom/table.py by this correspondence run '
           '(raw h5py tree of every written file == model tree, spec decoder results equal)',
           'harness/spec_decoder.py: independent reading of doc/documentation/format_versions/biom-2.1.rst (its reading of the rst is stated in its docstring)',
           'h5py / HDF5 / gzip filter',
           'extraction (ExtrOcamlBasic only) + ocaml/driver_tail.ml, cross-checked against vm_compute on a sample']
ASSUMPTIONS = ['the rst prints (M+1,) for observation/matrix/indptr and (N+1,) for sample/matrix/indptr; offsets of compressed rows number rows+1 = N+1: '
               'the two sizes are read as swapped',
               'an ids dataset of length 0 has no element, its element kind (float64, h5py cannot create an empty string dataset) is not constrained',
               'type "" stands for "no type" (the attribute is required, a type is not)',
               'metadata as in C01 (homogeneous categories, names that survive the slash escape)']

_STATE = {}


def _build(case):
    t = U.build_table(case)
    st = U.state_of(t)
    _STATE[jhash(case)] = st
    return t, st


def _state(case):
    k = jhash(case)
    if k not in _STATE:
        _build(case)
    return _STATE[k]


def _genby(case):
    if case.get('writer') == 'convert':
        from biom.parse import generatedby
        return generatedby()
    return case['genby']


def _in_domain(case):
    return U.in_domain(case) and (case['spec'].get('type') is None or case['spec']['type'] in U.VOCAB)


def run_impl(case):
    try:
        t, st = _build(case)
    except Exception as e:
        return {'build': ['err', tables.err_code(e), type(e).__name__, str(e)[:200]]}
    path = U.tmpfile()
    try:
        try:
            U.write_table(t, case, path)
        except Exception as e:
            return {'write': ['err', tables.err_code(e)]}
        tree, comp = U.raw_tree(path, mask_date=case.get('writer') == 'convert')
        try:
            rep = spec_decoder.decode(path)
        except Exception as e:      # the decoder must not hide a malformed file behind its own crash
            rep = {'problems': ['spec decoder could not read the file: %s: %s' % (type(e).__name__, str(e)[:120])],
                   'csr': None, 'csc': None, 'shape': None, 'nnz': None, 'ids': {}, 'md_entries': {}}
        return {'write': 'ok', 'file': tree, 'in_domain': _in_domain(case),
                'spec': {'problems': rep['problems'], 'csr': rep['csr'], 'csc': rep['csc']},
                'seen': {'shape': rep['shape'], 'nnz': rep['nnz'], 'ids': rep['ids'], 'md_entries': rep['md_entries']}}
    finally:
        if os.path.exists(path):
            os.remove(path)


def encode(case):
    date = '<now>' if case.get('writer') == 'convert' else case['date']
    return [U.enc_state(case, _state(case)), U.cps(_genby(case)), U.cps(date)]


def decode(tree, case):
    w = tree[0]
    if w[0] == -1:
        return {'write': ['err', w[1]]}
    f = U.dec_h5(w[1])
    mat = lambda o: None if not o else [[U.unbig(v) for v in row] for row in o[0]]
    csr, csc = mat(tree[1]), mat(tree[2])
    s = case['spec']
    # 'seen' restates the written tree in the decoder's terms (shape, nnz, ids, entries per category)
    def ids(ax):
        d = f['dsets'].get('%s/ids' % ax)
        return None if d is None else ([x[2:] for x in d['data']] if d['kind'] == 'vstr' else [])
    def ents(ax):
        pre = '%s/metadata/' % ax
        return {k[len(pre):]: v['shape'] for k, v in f['dsets'].items() if k.startswith(pre)}
    return {'write': 'ok', 'file': f, 'in_domain': bool(tree[3]),
            'spec': {'problems': [] if csr is not None and csc is not None else ['model: the Coq spec decoder refuses the file'],
                     'csr': csr, 'csc': csc},
            'seen': {'shape': f['attrs']['shape'][1], 'nnz': f['attrs']['nnz'][1],
                     'ids': {'observation': ids('observation'), 'sample': ids('sample')},
                     'md_entries': {'observation': ents('observation'), 'sample': ents('sample')}}}


# ---------------------------------------------------------------- oracle: the property text
def oracle(case, obs):
    if 'build' in obs:
        return ['could not build the source table: %s' % (obs['build'],)]
    if obs.get('write') != 'ok':
        return ['writing a table of the property domain failed: %s' % (obs.get('write'),)]
    s = case['spec']
    n, m = len(s['oids']), len(s['sids'])
    fails = ['not BIOM 2.1: ' + p for p in obs['spec']['problems']]
    seen = obs['seen']
    if seen['shape'] != [n, m]:
        fails.append('shape attribute %s, the table is %d x %d' % (seen['shape'], n, m))
    true_nnz = sum(1 for row in s['mat'] for v in row if v != 0)
    if seen['nnz'] != true_nnz:
        fails.append('nnz attribute %s, the table has %d non-zero cells' % (seen['nnz'], true_nnz))
    want = [[U.fbits(v) for v in row] for row in s['mat']] if m else [[] for _ in range(n)]
    for k, label in (('csr', 'observation (compressed row)'), ('csc', 'sample (compressed column)')):
        got = obs['spec'][k]
        if got is not None and m == 0:
            got = [[] for _ in got]
        if got != want:
            fails.append('the %s copy decodes to %s, the table matrix is %s' % (label, str(got)[:120], str(want)[:120]))
    for ax, ids, md in (('observation', s['oids'], s.get('omd')), ('sample', s['sids'], s.get('smd'))):
        if seen['ids'].get(ax) != list(ids):
            fails.append('%s/ids holds %s, the axis ids are %s' % (ax, seen['ids'].get(ax), ids))
        cats = set(md[0]) if md and any(md) else set()
        got = seen['md_entries'].get(ax) or {}
        if {c.replace('@@SLASH@@', '/') for c in got} != cats:
            fails.append('%s/metadata has datasets %s for categories %s' % (ax, sorted(got), sorted(cats)))
        for c, shape in got.items():
            if not shape or shape[0] != len(ids):
                fails.append('%s/metadata/%s has shape %s for %d ids' % (ax, c, shape, len(ids)))
    return fails[:4]


# ---------------------------------------------------------------- generation
def gen(rng, tier):
    quick = tier == 'quick'
    k = 1 if quick else 10
    md = 6 if quick else 12
    for i in range(200 * k):
        yield U.rand_case(rng, md)
    for i in range(60 * k):
        yield U.rand_case(rng, md, empty_axis=True)
    for i in range(40 * k):
        yield U.rand_case(rng, md, all_zero=True)
    for i in range(60 * k):
        c = U.rand_case(rng, md, writer='convert', empty_axis=rng.random() < 0.1)
        c['spec']['type'] = rng.choice(U.VOCAB)     # --table-type; see docs/C04.md for the default
        c['compress'] = True                        # write_biom_table uses the default
        yield c


def nontrivial(case):
    return True        # every case is a file written by the library and decoded by the independent decoder


def classify(case):
    return U.classify_case(case) + [U.layout_tag(_state(case)), 'theorem-domain:%s' % ('inside' if _in_domain(case) else 'outside')]


def shrink(case):
    from . import c01
    for c in c01.shrink(case):
        yield c
    s = case['spec']
    if len(s['oids']) == 1 and s.get('omd') is None:
        yield dict(case, spec=dict(s, oids=[], mat=[], layout=['dense']))
    if len(s['sids']) == 1 and s.get('smd') is None:
        yield dict(case, spec=dict(s, sids=[], mat=[[] for _ in s['oids']], layout=['dense']))


SIGNATURES = {}
