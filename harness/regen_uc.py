"""regenerate() hook for the uc-importer translator tools/py2v_uc (sibling of harness/regen.py and
harness/regen_dyn.py): re-translate the listed targets from the source tree under test (BIOM_REPO)
at the start of a check and record the run in the evidence.  A refusal is a broken tie.
    from . import regen_uc as _regen_uc
    regenerate = _regen_uc.hook(TRUSTED, ['uc'], 'coq/Model/UcText.v + coq/Model/Construct.v', 'coq/Proofs/GenBridgeUcProofs.v')"""
import os
import re

from . import core


def hook(trusted, targets, model, bridges, vocab='coq/Gen/StrPrelude.v + coq/Gen/UcPrelude.v'):
    base = list(trusted)

    def regenerate():
        rc, out = core.sh([os.path.join(core.ROOT, 'tools', 'regen_uc.sh')] + list(targets), timeout=300)
        del trusted[:]
        trusted.extend(base)
        refused = [ln.split('REFUSED', 1)[1].strip() for ln in out.split('\n') if 'REFUSED' in ln]
        for m in re.finditer(r'py2v_uc: (\S+) -> (\S+) (written|unchanged) \(source sha256 ([0-9a-f]+)\)', out):
            trusted.append('%s regenerated from %s by tools/py2v_uc on this run (%s; sha256 of source %s); tied to the '
                           'hand-written model %s by the *_is_source theorems (%s); trusted: the translator, its '
                           'signature files tools/py2v_uc/sigs/*.json and the vocabulary %s'
                           % (m.group(2), m.group(1), m.group(3), m.group(4), model, bridges, vocab))
        if rc != 0:
            trusted.append('translator py2v_uc REFUSED a source on this run (%s); the generated file is stale'
                           % '; '.join(refused))
            raise core.Broken('translator rejected %s' % ('; '.join(refused) or 'rc=%d' % rc), out[-3000:])
    return regenerate
