"""C01: HDF5 (BIOM 2.x) write / read round trip is lossless.

Every case builds a real table in the layout a history leaves behind, writes it (Table.to_hdf5 on an
h5py file, on a biom_open handle, or biom.save_table), reads the file back with RAW h5py into a plain
tree (compared with the tree the Coq model of to_hdf5 produces from the same state) and loads it
through biom.load_table(path), parse_table(open handle) and Table.from_hdf5(h5py handle) (compared
with what the Coq model of from_hdf5 returns, and by the oracle with the source content)."""
import os

import h5py

from . import h5util as U
from . import tables
from .core import jhash

ID = 'C01'
RULE = ('random tables 1..6 x 1..6 (thorough 1..12), density {0,.2,.6,1}, values counts/negative/k-64ths/2^40+1/2^-30/'
        'non-dyadic/denormal/max, id alphabets short/long/punctuation+space+slash/Latin-1/CJK/astral, metadata none/text/int/'
        'float/bool/taxonomy-like lists of unequal length/collapsed_ids/category names with slashes/several categories with '
        'differing insertion order, type none or vocabulary, table id none/empty/text, group metadata, layout recipes '
        '(dense/csr/csc/coo/lists/stored zeros/unsorted indices, then sort_order/transpose/row+column access/nnz/copy, and '
        'in-place edits through the public matrix_data property: stored zeros, reversed segments, also after a column access = CSC), compress on/off, writer to_hdf5/biom_open/save_table, '
        'three load paths; histories: write-load-write-load, numpy-scalar metadata, an earlier to_hdf5 with custom format_fs, ids given as '
        'object array / pandas Index / Series / tuple / np.str_ list; plus the UTF-8 decoder on random byte strings and the slash escape on random names; '
        'non-trivial = a table with at least one stored value or metadata, or a multi-byte string; distinct by case hash')
TRUSTED = ['hand-written model coq/Model/Hdf5.v + coq/Model/Sparse.v tied to biom/table.py by this correspondence run '
           '(raw h5py tree of every written file == model tree; every loaded table == model reader)',
           'h5py / HDF5 / gzip filter, numpy fixed-width unicode arrays, datetime.isoformat/fromisoformat (validated end to end by the run)',
           'extraction (ExtrOcamlBasic only) + ocaml/driver_tail.ml, cross-checked against vm_compute on a sample']
from . import regen_h5r as _regen_h5r
# py2v_h5r: regenerate coq/Gen/Hdf5ReadGen.v (Table.from_hdf5, the reader) from the source first
_regenerate_reader = _regen_h5r.hook(TRUSTED, ['h5read'], 'coq/Model/Hdf5.v (from_hdf5)', 'coq/Proofs/GenBridgeHdf5ReadProofs.v')


def regenerate():
    _regenerate_reader()


ASSUMPTIONS = ['ids, category names and strings are Unicode scalar values without NUL (h5py refuses NUL, Python refuses lone surrogates)',
               'category names do not collide after the slash escape and read back through it (no literal @@SLASH@@-like text); '
               'the refuting name is a theorem (slash_escape_refuted)',
               'lists (taxonomy, KEGG_Pathways, collapsed_ids) are non-empty lists of non-empty strings: empty strings are padding, an empty list reads back as None',
               'a stored -0.0 is outside the domain (nnz eliminates it, it reads back as +0.0)',
               'HDF5 link-name rules for category and group-metadata names (non-empty, not ".", one path component)']

_STATE = {}
_GEN2 = {}        # case hash -> model input for the table that was loaded and is written again


def _build(case):
    t = U.build_table(case)
    st = U.state_of(t)
    _STATE[jhash(case)] = st
    return t, st


def _state(case):
    k = jhash(case)
    if k not in _STATE:
        _build(case)
    return _STATE[k]


def _genby2(case):
    return case['genby'] + ' / second write'


def _undate(case, snap):
    """a file stamped by the writer itself carries the current time: compared as <now>"""
    if isinstance(snap, dict) and not U.dated(case):
        snap = dict(snap, date=U.now_or(snap.get('date')) if snap.get('date', [None])[0] == 'datetime' else snap.get('date'))
    return snap


def _load(fn):
    try:
        return U.loaded_snapshot(fn())
    except Exception as e:
        return ['err', tables.err_code(e), type(e).__name__]


def _second_generation(case, path):
    """history: the table loaded from the file is written again (same arguments) and loaded again"""
    import biom
    try:
        t1 = biom.load_table(path)
        # optional step between the generations: the documented way of adding group metadata, {category: (type, payload)},
        # to a table whose loaded entries are bare payload texts (the dict then holds both forms)
        for ax, g in sorted((case.get('gen2_add') or {}).items()):
            t1.add_group_metadata({k: tuple(v) for k, v in g.items()}, axis=ax)
        _GEN2[jhash(case)] = U.enc_table_state(t1)
    except Exception as e:
        _GEN2[jhash(case)] = None
        return {'load': ['err', tables.err_code(e)]}
    path2 = U.tmpfile()
    try:
        try:
            U.write_table(t1, case, path2, genby=_genby2(case))       # asked to record ANOTHER generated-by
        except Exception as e:
            return {'write': ['err', tables.err_code(e)]}
        tree, comp = U.raw_tree(path2, mask_date=not U.dated(case))
        return {'write': 'ok', 'file': tree, 'loaded': _norm_err(_undate(case, _load(lambda: biom.load_table(path2))))}
    finally:
        if os.path.exists(path2):
            os.remove(path2)


def run_impl(case):
    kind = case.get('kind', 'table')
    if kind == 'utf8':
        try:
            return ['ok', U.cps(bytes(case['bytes']).decode('utf-8'))]
        except UnicodeDecodeError:
            return ['none']
    if kind == 'escape':
        s = case['name'].replace('/', '@@SLASH@@')
        return [U.btext(s.encode('utf-8')), s.replace('@@SLASH@@', '/')]
    import biom
    from biom import Table
    from biom.util import biom_open
    try:
        t, st = _build(case)
    except Exception as e:
        return {'build': ['err', tables.err_code(e), type(e).__name__, str(e)[:200]]}
    path = U.tmpfile()
    try:
        try:
            U.write_table(t, case, path)
        except Exception as e:
            return {'write': ['err', tables.err_code(e)]}
        tree, comp = U.raw_tree(path, mask_date=not U.dated(case))
        out = {'write': 'ok', 'file': tree, 'compression': comp, 'in_domain': U.in_domain(case)}
        out['load_table'] = _undate(case, _load(lambda: biom.load_table(path)))
        if case.get('gen2'):
            out['gen2'] = _second_generation(case, path)

        def via_handle():
            with biom_open(path) as fp:
                return biom.parse_table(fp)
        out['parse_table'] = _undate(case, _load(via_handle))

        def via_h5():
            with h5py.File(path, 'r') as f:
                return Table.from_hdf5(f, axis=case.get('h5_axis', 'sample'))
        out['from_hdf5'] = _undate(case, _load(via_h5))
        return out
    finally:
        if os.path.exists(path):
            os.remove(path)


def encode(case):
    kind = case.get('kind', 'table')
    if kind == 'utf8':
        return [1, case['bytes']]
    if kind == 'escape':
        return [2, U.cps(case['name'])]
    date = case['date'] if U.dated(case) else U.NOW
    tree = [0, U.enc_state(case, _state(case)), U.cps(case['genby']), U.cps(date)]
    if case.get('gen2'):
        if jhash(case) not in _GEN2:
            run_impl(case)
        if _GEN2.get(jhash(case)) is not None:
            tree.append([[_GEN2[jhash(case)], U.cps(_genby2(case)), U.cps(date)]])
    return tree


def decode(tree, case):
    kind = case.get('kind', 'table')
    if kind == 'utf8':
        return ['ok', tree[0]] if tree else ['none']
    if kind == 'escape':
        return [U.btext(tree[0]), U.uncps(tree[1])]
    w = tree[0]
    if w[0] == -1:
        return {'write': ['err', w[1]]}
    def ld(t):
        if t[0] == -1:
            return ['err', t[1], None]
        d = U.dec_loaded(t[1])
        if not U.dated(case):
            d['date'] = ['datetime', U.NOW]      # the model carries the text <now>; the reader makes a datetime of a real stamp
        return d
    samp, obs = ld(tree[1]), ld(tree[2])
    extra = {}
    if case.get('gen2') and len(tree) > 4 and tree[4]:
        w2, l2, _dom2 = tree[4][0]
        extra['gen2'] = {'write': ['err', w2[1]]} if w2[0] == -1 else \
            {'write': 'ok', 'file': U.dec_h5(w2[1]), 'loaded': _norm_err(ld(l2))}
    return dict(extra, **{'write': 'ok', 'file': U.dec_h5(w[1]), 'compression': ['gzip' if case['compress'] else 'none'],
            'in_domain': bool(tree[3]),
            'load_table': samp, 'parse_table': samp,
            'from_hdf5': obs if case.get('h5_axis', 'sample') == 'observation' else samp})


def _norm_err(x):
    # the model cannot name the Python exception class; compare the code only
    if isinstance(x, list) and x and x[0] == 'err':
        return x[:2]
    return x


def _post(o):
    if isinstance(o, dict):
        for k in ('load_table', 'parse_table', 'from_hdf5'):
            if k in o:
                o[k] = _norm_err(o[k])
    return o


_run_impl, _decode = run_impl, decode


def run_impl(case):          # noqa: F811
    return _post(_run_impl(case))


def decode(tree, case):      # noqa: F811
    return _post(_decode(tree, case))


# ---------------------------------------------------------------- oracle: the property text
FIELDS = [('oids', 'observation ids'), ('sids', 'sample ids'), ('mat', 'matrix values (bit patterns)'),
          ('omd', 'observation metadata'), ('smd', 'sample metadata'), ('type', 'table type'), ('id', 'table id'),
          ('genby', 'generated-by'), ('date', 'creation date'), ('ogmd', 'observation group metadata payload'),
          ('sgmd', 'sample group metadata payload')]


def oracle(case, obs, want=None):
    if case.get('kind', 'table') != 'table':
        return []
    if 'build' in obs:
        return ['could not build the source table: %s' % (obs['build'],)]
    if obs.get('write') != 'ok':
        return ['writing a table of the property domain failed: %s' % (obs.get('write'),)]
    from .core import canon
    want = canon(want or U.source_content(case))
    fails = []
    for path in ('load_table', 'parse_table', 'from_hdf5'):
        got = obs.get(path)
        if not isinstance(got, dict):
            fails.append('%s failed on a file the library wrote: %s' % (path, got))
            continue
        for f, label in FIELDS:
            if got.get(f) != want.get(f):
                fails.append('%s: %s differ after the round trip: wrote %s, loaded %s'
                             % (path, label, str(want.get(f))[:160], str(got.get(f))[:160]))
    if case.get('gen2'):
        g2 = obs.get('gen2') or {}
        if g2.get('write') != 'ok':
            fails.append('second generation: writing the table that was loaded from the file failed: %s' % (g2.get('write') or g2.get('load'),))
        elif not isinstance(g2.get('loaded'), dict):
            fails.append('second generation: the re-written file could not be loaded: %s' % (g2.get('loaded'),))
        else:
            want2 = dict(want, genby=_genby2(case))        # the second write was asked to record another generated-by
            added = set()
            for ax, g in (case.get('gen2_add') or {}).items():
                f_ = 'ogmd' if ax == 'observation' else 'sgmd'
                want2[f_] = dict(want2.get(f_) or {}, **{k: ['s', v[1]] for k, v in g.items()})
                added.add(f_)
            for f, label in FIELDS:
                if g2['loaded'].get(f) != want2.get(f):
                    fails.append('second generation (write, load, write, load): %s differ from what was to be written: wrote %s, loaded %s'
                                 % (label, str(want2.get(f))[:160], str(g2['loaded'].get(f))[:160]))
                elif f != 'genby' and f not in added and isinstance(obs.get('load_table'), dict) and g2['loaded'].get(f) != obs['load_table'].get(f):
                    fails.append('second generation: %s differ from the first generation' % label)
    exp = ['gzip' if case['compress'] else 'none']
    if obs.get('compression') != exp:
        fails.append('dataset compression is %s, requested %s' % (obs.get('compression'), exp))
    return fails[:4]


# ---------------------------------------------------------------- generation
def gen(rng, tier):
    quick = tier == 'quick'
    n = 330 if quick else 3300
    md = 6 if quick else 12
    for i in range(n):
        yield U.rand_case(rng, md)
    for i in range(20 if quick else 200):
        yield U.rand_case(rng, md, all_zero=True)
    # UTF-8 decoder on arbitrary bytes, biased towards interesting lead / continuation bytes
    pool = [0, 0x41, 0x7f, 0x80, 0xbf, 0xc0, 0xc1, 0xc2, 0xdf, 0xe0, 0xed, 0xef, 0xf0, 0xf4, 0xf5, 0xff, 0x9f, 0xa0, 0x8f, 0x90]
    for i in range(150 if quick else 1500):
        if rng.random() < 0.5:
            b = list(''.join(chr(rng.choice([0x41, 0xe9, 0x7ff, 0x800, 0xd7ff, 0xe000, 0xffff, 0x10000, 0x1d11e, 0x10ffff]))
                             for _ in range(rng.randint(0, 4))).encode('utf-8'))
            if b and rng.random() < 0.4:
                b[rng.randrange(len(b))] = rng.choice(pool)
        else:
            b = [rng.choice(pool) if rng.random() < 0.8 else rng.randrange(256) for _ in range(rng.randint(0, 5))]
        yield {'kind': 'utf8', 'bytes': b}
    for i in range(60 if quick else 600):
        yield {'kind': 'escape', 'name': ''.join(rng.choice(['/', '@', '@@', 'SLASH', '@@SLASH@@', '@@SLASH@', 'a', 'é', 'x'])
                                               for _ in range(rng.randint(0, 5)))}


def nontrivial(case):
    k = case.get('kind', 'table')
    if k == 'utf8':
        return any(b >= 0x80 for b in case['bytes'])
    if k == 'escape':
        return '/' in case['name'] or '@' in case['name']
    s = case['spec']
    return any(v for row in s['mat'] for v in row) or bool(s.get('omd')) or bool(s.get('smd'))


def classify(case):
    tags = U.classify_case(case)
    if case.get('kind', 'table') == 'table':
        tags.append(U.layout_tag(_state(case)))
        tags.append('h5_axis:%s' % case.get('h5_axis'))
        tags.append('history:%s' % ('write-load-write-load' if case.get('gen2') else 'write-load'))
        tags.append('md-values:%s' % ('numpy scalars' if case.get('np_md') else 'python'))
        tags.append('ids-given-as:%s' % (case.get('ids_as') or 'list'))
        tags.append('table-own-generated_by:%s' % ('set' if case.get('own_genby') else 'none'))
        od = case.get('own_date')
        tags.append('table-own-create_date:%s' % ('none' if not od else od[0] if od[0] == 'datetime' else 'ISO text' if U.model_date(od[1])[0] == 'datetime' else 'non-ISO text'))
        tags.append('creation_date-argument:%s' % ('given' if U.dated(case) else 'absent (now)'))
        tags.append('userblock:%s' % (case.get('userblock') or 0))
        tags.append('live-metadata-edited:%s' % ((case.get('md_edit') or {}).get('mode') or 'no'))
        tags.append('earlier-write-with-format_fs:%s' % bool(case.get('prelude')))
        tags.append('theorem-domain:%s' % ('inside' if U.in_domain(case) else 'outside'))
    return tags


def shrink(case):
    if case.get('kind', 'table') == 'utf8':
        b = case['bytes']
        for i in range(len(b)):
            yield {'kind': 'utf8', 'bytes': b[:i] + b[i + 1:]}
        return
    if case.get('kind', 'table') == 'escape':
        s = case['name']
        for i in range(len(s)):
            yield {'kind': 'escape', 'name': s[:i] + s[i + 1:]}
        return
    s = case['spec']

    def with_spec(**kw):
        return dict(case, spec=dict(s, **kw))
    r, c = len(s['oids']), len(s['sids'])
    plain_layout = [x for x in (s.get('layout') or ['dense']) if not isinstance(x, list)]
    for i in range(r):
        if r > 1:
            yield with_spec(oids=s['oids'][:i] + s['oids'][i + 1:], mat=s['mat'][:i] + s['mat'][i + 1:],
                            omd=None if s.get('omd') is None else s['omd'][:i] + s['omd'][i + 1:], layout=plain_layout)
    for j in range(c):
        if c > 1:
            yield with_spec(sids=s['sids'][:j] + s['sids'][j + 1:], mat=[row[:j] + row[j + 1:] for row in s['mat']],
                            smd=None if s.get('smd') is None else s['smd'][:j] + s['smd'][j + 1:], layout=plain_layout)
    for k in ('omd', 'smd', 'ogmd', 'sgmd', 'id', 'type'):
        if s.get(k) is not None:
            yield with_spec(**{k: None})
    for k in ('omd', 'smd'):
        if s.get(k) and len(s[k][0]) > 1:
            for cat in list(s[k][0]):
                yield with_spec(**{k: [{a: b for a, b in m.items() if a != cat} for m in s[k]]})
    lay = s.get('layout') or ['dense']
    if len(lay) > 1:
        for i in range(1, len(lay)):
            yield with_spec(layout=lay[:i] + lay[i + 1:])
    elif lay != ['dense']:
        yield with_spec(layout=['dense'])
    if any(len(i) > 2 or ord(max(i)) > 127 for i in s['oids'] + s['sids'] if i):
        yield with_spec(oids=['o%d' % i for i in range(r)], sids=['s%d' % j for j in range(c)])
    for flag in ('np_md', 'prelude', 'ids_as', 'own_genby', 'own_date', 'userblock', 'md_edit'):
        if case.get(flag):
            yield {k: v for k, v in case.items() if k != flag}
    if case.get('gen2'):
        yield {k: v for k, v in case.items() if k != 'gen2'}
    if case.get('compress'):
        yield dict(case, compress=False)
    if case.get('writer') != 'to_hdf5':
        yield dict(case, writer='to_hdf5')


# ---------------------------------------------------------------- known findings
def _mangle(name):
    """what the writer's escape followed by the reader's unescape makes of a category name"""
    return name.replace('/', '@@SLASH@@').replace('@@SLASH@@', '/')


def _sig_f38(case, impl_obs, model_obs, fails):
    """F38: the slash escape of category names is not injective.  Matches only if (a) some category name
    of the case does not survive the escape and (b) the loaded tables are exactly the source with those
    names mangled the way the escape mangles them - any other difference stays a violation."""
    if case.get('kind', 'table') != 'table' or not fails or not isinstance(impl_obs, dict):
        return False
    s = case['spec']
    bad = [k for ax in ('omd', 'smd') if s.get(ax) for k in s[ax][0] if _mangle(k) != k]
    if not bad:
        return False
    want = U.source_content(case)
    for ax in ('omd', 'smd'):
        if want[ax] is not None:
            rows = [{_mangle(k): v for k, v in row.items()} for row in want[ax]]
            if any(len(r) != len(w) for r, w in zip(rows, want[ax])):
                return False        # two names collapse into one: not this finding
            want[ax] = rows
    return oracle(case, impl_obs, want) == []


SIGNATURES = {'F38': _sig_f38}
