"""regenerate() hook for the dynamic-mode translator tools/py2v_dyn (sibling of harness/regen.py):
re-translate the listed targets from the source tree under test (BIOM_REPO) at the start of a
check and record the run in the evidence.  A refusal is a broken tie.
    from . import regen_dyn as _regen_dyn
    regenerate = _regen_dyn.hook(TRUSTED, ['validator'])"""
import os
import re

from . import core


VALIDATOR_TIE = ('tied to the '
                 'hand-written model coq/Model/Validator.v by the *_is_source theorems '
                 '(coq/Proofs/GenBridgeValidatorProofs.v); trusted: the translator, its signature file '
                 'tools/py2v_dyn/sigs/validator.json and the py_* vocabulary coq/Gen/DynPrelude.v')


def hook(trusted, targets, tie=VALIDATOR_TIE):
    base = list(trusted)

    def regenerate():
        rc, out = core.sh([os.path.join(core.ROOT, 'tools', 'regen_dyn.sh')] + list(targets), timeout=300)
        del trusted[:]
        trusted.extend(base)
        refused = [ln.split('REFUSED', 1)[1].strip() for ln in out.split('\n') if 'REFUSED' in ln]
        for m in re.finditer(r'py2v_dyn: (\S+) -> (\S+) (written|unchanged) \(source sha256 ([0-9a-f]+)\)', out):
            trusted.append('%s regenerated from %s by tools/py2v_dyn on this run (%s; sha256 of source %s); %s'
                           % (m.group(2), m.group(1), m.group(3), m.group(4), tie))
        if rc != 0:
            trusted.append('translator py2v_dyn REFUSED a source on this run (%s); the generated file is stale'
                           % '; '.join(refused))
            raise core.Broken('translator rejected %s' % ('; '.join(refused) or 'rc=%d' % rc), out[-3000:])
    return regenerate
