"""regenerate() hook for the reorder-mode translator tools/py2v_ord (sibling of harness/regen_eq.py):
re-translate Table.sort_order / sort / copy / transpose / align_to from the source tree under test
(BIOM_REPO) at the start of a check and record the run in the evidence.  A refusal is a broken tie.
    from . import regen_ord as _regen_ord
    regenerate = _regen_ord.hook(TRUSTED, before=<another regenerate hook or None>)"""
import os
import re

from . import core

MODEL = 'coq/Model/Reorder.v (sort_order, sort, copy, transpose_c, align_to)'
BRIDGES = 'coq/Proofs/GenBridgeReorderProofs.v'
VOCAB = 'coq/Gen/OrdPrelude.v'


def hook(trusted, before=None):
    def regenerate():
        if before is not None:
            before()                 # resets [trusted] to its base and adds its own lines
        rc, out = core.sh([os.path.join(core.ROOT, 'tools', 'regen_ord.sh')], timeout=300)
        trusted[:] = [t for t in trusted if 'tools/py2v_ord' not in t and 'py2v_ord REFUSED' not in t]
        refused = [ln.split('REFUSED', 1)[1].strip() for ln in out.split('\n') if 'REFUSED' in ln]
        for m in re.finditer(r'py2v_ord: (\S+) -> (\S+) (written|unchanged) \(source sha256 ([0-9a-f]+)\)', out):
            trusted.append('%s regenerated from %s by tools/py2v_ord on this run (%s; sha256 of source %s); tied to the '
                           'hand-written model %s by the *_is_source theorems (%s); trusted: the translator, its '
                           'signature file tools/py2v_ord/sigs/reorder.json and the vocabulary %s'
                           % (m.group(2), m.group(1), m.group(3), m.group(4), MODEL, BRIDGES, VOCAB))
        if rc != 0:
            trusted.append('translator py2v_ord REFUSED a source on this run (%s); the generated file is stale'
                           % '; '.join(refused))
            raise core.Broken('translator rejected %s' % ('; '.join(refused) or 'rc=%d' % rc), out[-3000:])
    return regenerate
