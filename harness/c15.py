"""C15: the validator accepts what the library writes and rejects structural corruption.

A case is a table spec (vocabulary type) written by the library as BIOM 1.0 JSON or BIOM 2.1
HDF5, plus a list of mutation descriptors from the finite mutation grammar of the property
(`mutations`).  The mutated file goes through the real validator (python API and the click
command in-process; a real subprocess for a sample in the thorough tier) and through the model;
accepted files are loaded."""
import copy
import datetime
import json
import os
import re
import subprocess
import tempfile

import h5py
import numpy as np

from biom import Table, load_table
from biom.cli.table_validator import TableValidator, _validate_table, validate_table

from . import tables
from .core import jhash

ID = 'C15'
RULE = ('library-written files of tables.rand_spec tables (1-4 x 1-4, every layout recipe, vocabulary type) as BIOM 1.0 '
        'JSON and BIOM 2.1 HDF5; every single mutation of the grammar (delete/rename each required key, group, '
        'dataset, attribute; perturb shape; append out-of-range, negative, mistyped, malformed coordinates; duplicate '
        'or blank IDs; metadata replaced by non-objects; records replaced by non-objects; swap matrix / element '
        'type, also consistently; corrupt date / format / url / generated_by / type) on two fixed base tables, '
        'random single and double mutations on random tables (quick), all ordered pairs on a base table '
        '(thorough); non-trivial = a mutated file or a table with a non-zero cell; distinct by case hash')
TRUSTED = ['hand-written model coq/Model/Validator.v tied to biom/cli/table_validator.py by this correspondence run '
           '(verdict, exception class and every report line kind compared), coq/Model/Json.v from_json tied to '
           'Table.from_json on every accepted document',
           'HDF5 writer side (every file to_hdf5 writes validates) is checked by correspondence only',
           'h5py reading of the mutated file into the tree the model sees (harness/c15.py h5_tree)',
           'extraction (ExtrOcamlBasic only) + ocaml/driver_tail.ml, cross-checked against vm_compute on a sample']
from . import regen_dyn as _regen_dyn
regenerate = _regen_dyn.hook(TRUSTED, ['validator'])   # py2v_dyn: regenerate coq/Gen/ValidatorGen.v from the source first
ASSUMPTIONS = ['JSON numbers are finite; float values are multiples of 1/64 (exact in the model)',
               'dates use ASCII digits (strptime also accepts other Unicode decimal digits)',
               'an uncaught exception of the validator counts as "not reported valid"']

# what may follow the seconds / the fraction: accepted by %z (first line) and corrupt (the rest)
OFFSETS = ('+00:00', '+0000', 'Z', '+05:30', '-05:30', '+0530', '+23:59', '-23:59', '+05:30:15', '+053015', '-00:00',
           '+05:30:15.123456', '+05:30:15.5',
           '+00', '+05', '+5', '+0', '+', '+25:00', '+24:00', '-24:00', '+00:60', '+05:3', '+05:', '+05:30x', ' +05:30',
           'z', 'UTC', '+05:30:60', '+05:30:15.1234567', '+05:30:15.', '+0530:15', '+05:3015', '++05:30', '+05:30:',
           '+05:30:1', '+05:30 ', 'Z0', '+05-30')
KEYS = ['format', 'format_url', 'type', 'rows', 'columns', 'shape', 'data', 'matrix_type', 'matrix_element_type',
        'generated_by', 'id', 'date']
H_ATTRS = ['format-url', 'format-version', 'type', 'shape', 'nnz', 'generated-by', 'id', 'creation-date']
H_GROUPS = ['observation', 'sample', 'observation/matrix', 'sample/matrix']
H_DATASETS = ['observation/ids', 'observation/matrix/data', 'observation/matrix/indices', 'observation/matrix/indptr',
              'sample/ids', 'sample/matrix/data', 'sample/matrix/indices', 'sample/matrix/indptr']
SPEC_GROUPS = H_GROUPS + ['observation/metadata', 'observation/group-metadata', 'sample/metadata',
                          'sample/group-metadata']
VOCAB = ['OTU table', 'Pathway table', 'Function table', 'Ortholog table', 'Gene table', 'Metabolite table',
         'Taxon table']
SCALE = 64


# ---------------------------------------------------------------- the mutation grammar
def mutations(nr, nc, offsets=OFFSETS):
    """single mutations of a JSON document with nr rows and nc columns (JSON-able descriptors)"""
    m = []
    for k in KEYS:
        m.append(['del', k])
        m.append(['rename', k, k + '_x'])
    # shape
    for sh in ([nr + 1, nc], [nr - 1, nc], [nr, nc + 1], [nr, nc - 1], [0, nc], [nr, 0], [-1, nc], [nr], [nr, nc, 1],
               [float(nr), nc], [nr, nc + 0.5], [str(nr), nc], [True, nc], [None, nc], 5, 'ab', {'a': nr, 'b': nc},
               None, [[nr], nc]):
        m.append(['set', 'shape', sh])
    # coordinates
    v = 1.5
    for cd in ([nr, 0, v], [0, nc, v], [nr + 5, nc + 5, v], [-1, 0, v], [0, -1, v], [0.0, 0, v], ['0', 0, v],
               [True, 0, v], [None, 0, v], [0, [0], v], [0, 0, 'x'], [0, 0, 1], [0, 0, True], [0, 0, None],
               [0, 0, [v]], [0, 0], [0, 0, v, 2.0], [], 5, 'abc', {'a': 1, 'b': 2, 'c': 3}, None,
               [0, 0, v], [nr - 1, nc - 1, -2.5], [0, 0, 0.0]):
        m.append(['coord', cd])
    for d in ('', {}, None, 5, 'abc', [5], ['abc'], [[]], {'a': 1}):
        m.append(['set', 'data', d])
    # ids and metadata, both axes
    for ax, n in (('rows', nr), ('columns', nc)):
        m.append(['dupid', ax, n - 1, 0])
        m.append(['dupid', ax, 0, n - 1])
        for val in ('', None, 0, 5, 1.5, True, False, [], ['a'], {}, {'a': 1}, ' ', 'new id'):
            m.append(['rec', ax, 0, 'id', val])
        m.append(['rec', ax, n - 1, 'id', ''])
        for val in ([], ['a'], 'x', '', 5, 0, True, 1.5, {}, {'k': 'v'}, None):
            m.append(['rec', ax, n - 1, 'metadata', val])
        m.append(['recdel', ax, 0, 'id'])
        m.append(['recdel', ax, n - 1, 'metadata'])
        for val in ('id metadata', ['id', 'metadata'], 5, None, {}, 'x'):
            m.append(['recset', ax, 0, val])
        for val in ({}, '', None, 5, 'ab', []):
            m.append(['set', ax, val])
    # matrix type / element type
    for val in ('dense', 'Sparse', 'SPARSE', 'DENSE', '', 5, None, ['sparse']):
        m.append(['set', 'matrix_type', val])
    for val in ('int', 'str', 'unicode', 'float', 'Float', 'bogus', '', 5, None, ['int']):
        m.append(['set', 'matrix_element_type', val])
    m += [['dense'], ['ints'], ['dense-short'], ['dense-ragged'], ['dense-int-cell'], ['ints-bool'], ['dense-bool-cell']]
    # date / format / url / generated_by / type / id
    for val in ('yesterday', '', 5, None, '2020-13-01', '2020-02-30', '2020-02-29', '2019-02-29', '2020-1-5',
                '2020-01-01T25:00', '2020-01-01T10:00:61', '2020-01-01T10:00:00.1234567', '2020-01-01t10:00',
                '2020-01-01 10:00', ' 2020-01-01', '0000-01-01', '2020-01-02T03:04:05+00:00', '2020-01- 5',
                '2020-01-01T1:2:3.4', '20200101', '2020-01-01T', '2020-01-01T10', '2020-01-01T10:60', '99999-01-01',
                ['2020-01-01']) + tuple('2024-02-29T13:14:15' + frac + off for frac in ('', '.25') for off in offsets) + \
            ('2024-02-29T13:14+00:00', '2024-02-29+00:00', '2024-02-29T13:14:15.1234567+00:00', '2024-02-29T13:14:1+01:00',
             '2024-02-29T13:14:15.+01:00', '2024-02-30T13:14:15+01:00'):
        m.append(['set', 'date', val])
    for val in ('1.0.0', 'Biological Observation Matrix 2.1.0', 'biological observation matrix 1.0.0', '', 5, None):
        m.append(['set', 'format', val])
    for val in ('http://biom-format.org/', 'https://biom-format.org', '', None, 5):
        m.append(['set', 'format_url', val])
    for val in ('', None, 0, 7, [], {}, [0], False, 0.0):
        m.append(['set', 'generated_by', val])
    for val in (None, '', 'otu TABLE', 'OTU tableK', 'Bogus table', 'OTU', 5, ['OTU table'], True, {}):
        m.append(['set', 'type', val])
    for val in (None, 5, ''):
        m.append(['set', 'id', val])
    return m


def apply_mut(doc, mu):
    """apply one descriptor in place; descriptors that do not fit the document are no-ops"""
    op = mu[0]
    try:
        if op == 'del':
            doc.pop(mu[1], None)
        elif op == 'rename':
            if mu[1] in doc:
                doc[mu[2]] = doc.pop(mu[1])
        elif op == 'set':
            doc[mu[1]] = copy.deepcopy(mu[2])
        elif op == 'coord':
            if isinstance(doc.get('data'), list):
                doc['data'].append(copy.deepcopy(mu[1]))
        elif op in ('rec', 'recdel', 'recset', 'dupid'):
            recs = doc.get(mu[1])
            if not isinstance(recs, list) or not recs:
                return
            i = mu[2] % len(recs)
            if op == 'recset':
                recs[i] = copy.deepcopy(mu[3])
            elif not isinstance(recs[i], dict):
                return
            elif op == 'rec':
                recs[i][mu[3]] = copy.deepcopy(mu[4])
            elif op == 'recdel':
                recs[i].pop(mu[3], None)
            else:
                j = mu[3] % len(recs)
                if isinstance(recs[j], dict) and 'id' in recs[j] and i != j:
                    recs[i]['id'] = recs[j]['id']
        elif op in ('dense', 'dense-short', 'dense-ragged', 'dense-int-cell', 'dense-bool-cell'):
            sh, data = doc.get('shape'), doc.get('data')
            if (isinstance(sh, list) and len(sh) == 2 and all(type(x) is int and x >= 0 for x in sh)
                    and isinstance(data, list) and doc.get('matrix_type') == 'sparse'):
                M = [[0.0] * sh[1] for _ in range(sh[0])]
                for cd in data:
                    if (isinstance(cd, list) and len(cd) == 3 and type(cd[0]) is int and type(cd[1]) is int
                            and 0 <= cd[0] < sh[0] and 0 <= cd[1] < sh[1] and isinstance(cd[2], float)):
                        M[cd[0]][cd[1]] += cd[2]
                if op == 'dense-short' and M:
                    M = M[:-1]
                if op == 'dense-ragged' and M and M[0]:
                    M[0] = M[0][:-1]
                if op == 'dense-int-cell' and M and M[0]:
                    M[0][0] = 1
                if op == 'dense-bool-cell' and M and M[0]:
                    M = [[int(v) for v in r] for r in M]
                    M[-1][-1] = True
                    doc['matrix_element_type'] = 'int'
                doc['matrix_type'] = 'dense'
                doc['data'] = M
        elif op in ('ints', 'ints-bool'):
            data = doc.get('data')
            if isinstance(data, list) and all(isinstance(cd, list) and len(cd) == 3 and isinstance(cd[2], float)
                                              for cd in data):
                doc['matrix_element_type'] = 'int'
                doc['data'] = [[cd[0], cd[1], int(cd[2]) or 1] for cd in data]
                if op == 'ints-bool':
                    doc['data'].append([0, 0, True])
    except (TypeError, AttributeError, KeyError, IndexError):
        return


def h5_mutations(nr, nc):
    m = []
    for a in H_ATTRS:
        m.append(['adel', a])
    for g in SPEC_GROUPS + H_DATASETS:
        m.append(['gdel', g])
    m += [['aset', 'type', 's', ''], ['aset', 'type', 's', 'Bogus table'], ['aset', 'type', 's', 'otu TABLE'],
          ['aset', 'shape', 'ints', [nr + 1, nc]], ['aset', 'shape', 'ints', [nr, nc + 1]],
          ['aset', 'shape', 'ints', [nr - 1, nc]], ['aset', 'shape', 'ints', [0, 0]],
          ['aset', 'shape', 'flts', [float(nr), float(nc)]], ['aset', 'shape', 'ints', [nr, nc, 1]],
          ['aset', 'shape', 'ints', [nr]], ['aset', 'shape', 'int', nr],
          ['aset', 'nnz', 'int', -1], ['aset', 'nnz', 'int', 99], ['aset', 'nnz', 'flt', 2.0],
          ['aset', 'generated-by', 's', ''], ['aset', 'creation-date', 's', 'yesterday'],
          ['aset', 'creation-date', 's', '2020-02-30'], ['aset', 'creation-date', 's', '2020-01-02'],
          ['aset', 'creation-date', 's', '2024-02-29T13:14:15+05:30'], ['aset', 'creation-date', 's', '2024-02-29T13:14:15.25Z'],
          ['aset', 'creation-date', 's', '2024-02-29T13:14:15+25:00'], ['aset', 'creation-date', 's', '2024-02-29T13:14:15+0'],
          ['aset', 'creation-date', 's', '2024-02-29T13:14:15+05:30x'], ['aset', 'creation-date', 's', '2024-02-29T13:14+05:30'],
          ['aset', 'format-url', 's', 'http://biom-format.org/'], ['aset', 'format-url', 's', ''],
          ['aset', 'format-version', 'ints', [2, 0]], ['aset', 'format-version', 'ints', [3, 0]],
          ['aset', 'format-version', 'ints', [1, 0]], ['aset', 'format-version', 'ints', [2, 1, 0]],
          ['aset', 'id', 's', ''], ['v20', 'plain'], ['v20', 'keep-groups'], ['v20', 'int-md'],
          ['aset', 'format-version', 'ints', [2, 0, 0]]]
    for ax in ('observation', 'sample'):
        m += [['ids', ax, 'dup'], ['ids', ax, 'blank'], ['ids', ax, 'drop'], ['ids', ax, 'extra'],
              ['ids', ax, 'group'],
              ['mat', ax, 'indices', 'oob'], ['mat', ax, 'indices', 'neg'], ['mat', ax, 'indices', 'drop'],
              ['mat', ax, 'indices', 'edge'],
              ['mat', ax, 'indptr', 'decr'], ['mat', ax, 'indptr', 'first'], ['mat', ax, 'indptr', 'last'],
              ['mat', ax, 'indptr', 'drop'], ['mat', ax, 'indptr', 'extra'],
              ['mat', ax, 'data', 'drop'], ['mat', ax, 'data', 'strings'], ['mat', ax, 'data', 'ints'],
              ['mat', ax, 'data', 'value'], ['mat', ax, 'data', 'bool'], ['mat', ax, 'data', 'complex'],
              ['mat', ax, 'data', 'fixed-strings'], ['mat', ax, 'data', 'uint8'], ['mat', ax, 'data', 'float32'],
              ['mat', ax, 'indices', 'float'], ['mat', ax, 'indices', 'bool'], ['mat', ax, 'indices', 'strings'],
              ['mat', ax, 'indices', 'complex'], ['mat', ax, 'indices', 'int64'],
              ['mat', ax, 'indptr', 'float'], ['mat', ax, 'indptr', 'bool'], ['mat', ax, 'indptr', 'strings'],
              ['md', ax, 'short'], ['md', ax, 'dataset-for-group']]
    return m


def setds(h, p, data, **kw):
    del h[p]
    h.create_dataset(p, data=data, **kw)


def apply_h5(h, mu):
    op = mu[0]
    vstr = h5py.special_dtype(vlen=str)
    if op == 'adel':
        if mu[1] in h.attrs:
            del h.attrs[mu[1]]
    elif op == 'gdel':
        if mu[1] in h:
            del h[mu[1]]
    elif op == 'v20':
        # a file that says it is BIOM 2.0: no metadata groups (plain), the 2.1 groups left in place, or a
        # numeric dataset where 2.0 keeps its JSON text
        h.attrs['format-version'] = np.array([2, 0])
        if mu[1] != 'keep-groups':
            for ax in ('observation', 'sample'):
                for g in ('metadata', 'group-metadata'):
                    if ax in h and isinstance(h[ax], h5py.Group) and g in h[ax]:
                        del h[ax][g]
        if mu[1] == 'int-md' and 'observation' in h and isinstance(h['observation'], h5py.Group):
            h['observation'].create_dataset('metadata', data=np.arange(2))
    elif op == 'aset':
        kind, val = mu[2], mu[3]
        h.attrs[mu[1]] = (val if kind == 's' else np.array(val, dtype=np.int64) if kind == 'ints' else
                          np.array(val, dtype=np.float64) if kind == 'flts' else np.int64(val) if kind == 'int' else
                          np.float64(val))
    elif op == 'ids':
        p = mu[1] + '/ids'
        if p not in h or not isinstance(h[p], h5py.Dataset):
            return
        ids = [i.decode('utf8') if isinstance(i, bytes) else i for i in h[p][:]]
        if mu[2] == 'group':
            del h[p]
            h.create_group(p)
            return
        if not ids or not isinstance(ids[0], str):
            return
        if mu[2] == 'dup':
            if len(ids) < 2:
                return
            ids[-1] = ids[0]
        elif mu[2] == 'blank':
            ids[0] = ''
        elif mu[2] == 'drop':
            ids = ids[:-1]
        elif mu[2] == 'extra':
            ids = ids + ['extra id']
        if ids:
            setds(h, p, [i.encode('utf8') for i in ids], dtype=vstr)
        else:
            setds(h, p, np.zeros(0))
    elif op == 'mat':
        p = '%s/matrix/%s' % (mu[1], mu[2])
        if p not in h or not isinstance(h[p], h5py.Dataset):
            return
        a = h[p][:]
        what = mu[3]
        if what == 'oob' and len(a):
            a[-1] = 10 ** 6
        elif what == 'edge' and len(a):
            other = 'sample' if mu[1] == 'observation' else 'observation'
            a[0] = int(h.attrs['shape'][0 if other == 'observation' else 1]) if 'shape' in h.attrs else 7
        elif what == 'neg' and len(a):
            a[0] = -1
        elif what == 'drop' and len(a):
            a = a[:-1]
        elif what == 'extra':
            a = np.concatenate([a, a[-1:]]) if len(a) else a
        elif what == 'decr' and len(a) >= 3:
            a = a.copy()
            a[1] = a[-1] + 1 if a[-1] >= a[1] else a[1]
        elif what == 'first' and len(a):
            a[0] = 1
        elif what == 'last' and len(a):
            a[-1] = a[-1] + 1
        elif what == 'strings':
            setds(h, p, [b'x'] * len(a), dtype=vstr) if len(a) else None
            return
        elif what == 'ints':
            a = np.arange(len(a), dtype=np.int64)
        elif what == 'bool':
            a = np.asarray(a) != 0
        elif what == 'complex':
            a = np.asarray(a, dtype=np.complex128)
        elif what == 'fixed-strings':
            a = np.array([b'1.0'] * len(a), dtype='S3')
        elif what == 'uint8':
            a = np.asarray(np.abs(a), dtype=np.uint8)
        elif what == 'float32':
            a = np.asarray(a, dtype=np.float32)
        elif what == 'float':
            a = np.asarray(a, dtype=np.float64)
        elif what == 'int64':
            a = np.asarray(a, dtype=np.int64)
        elif what == 'value' and len(a):
            a[0] = a[0] + 1
        else:
            return
        setds(h, p, a)
    elif op == 'md':
        g = mu[1] + '/metadata'
        if g not in h:
            return
        if mu[2] == 'dataset-for-group':
            del h[g]
            h.create_dataset(g, data=np.arange(3))
            return
        if isinstance(h[g], h5py.Group):
            n = len(h[mu[1] + '/ids']) if (mu[1] + '/ids') in h else 0
            h[g].create_dataset('short_category', data=np.arange(n + 1))


# ---------------------------------------------------------------- materialising a case
CACHE = {}
STATS = {}
TMP = None


def tmpdir():
    global TMP
    if TMP is None or not os.path.isdir(TMP):
        TMP = tempfile.mkdtemp(prefix='c15-', dir=os.environ.get('TMPDIR', '/tmp'))
    return TMP


def case_date(c, default):
    """the creation_date argument of the writer: None (the writer takes now()), or a datetime, possibly tz-aware"""
    d = c.get('date', default)
    if d == 'now':
        return None
    tz = None
    if len(d) > 7 and d[7] is not None:
        tz = datetime.timezone(datetime.timedelta(minutes=d[7]))
    return datetime.datetime(*d[:7], tzinfo=tz)


def tz_aware(c):
    d = c.get('date')
    return isinstance(d, list) and len(d) > 7 and d[7] is not None


def rand_date(rng):
    r = rng.random()
    if r < 0.1:
        return 'now'
    d = [rng.choice([1, 1999, 2024, 9999]), rng.randint(1, 12), rng.randint(1, 28), rng.randint(0, 23),
         rng.randint(0, 59), rng.randint(0, 59), rng.choice([0, 0, 5, 999999, rng.randint(0, 999999)])]
    if r < 0.2:
        d.append(rng.choice([0, 60, -330, 345]))
    return d


DATE_FORMS = ['now', [2024, 2, 29, 13, 14, 15, 0], [2024, 2, 29, 13, 14, 15, 250000], [1, 1, 1, 0, 0, 0, 0],
              [2024, 2, 29, 0, 0, 0, 0], [2024, 2, 29, 13, 14, 15, 0, 0], [2024, 2, 29, 13, 14, 15, 7, 330]]


GROUP_MD = [
    None,
    {'observation': {'tree': ['newick', '((o1,o2),o3);']}},
    {'sample': {'graph': ['json', '{"s1": ["s2"]}']}},
    {'observation': {'tree': ['newick', '(a,b);'], 'other': ['text', 'x y']}, 'sample': {'tree': ['newick', '(x,y);']}},
]
OWN_DATES = [None, ['dt', [2015, 8, 24, 10, 15, 0, 0]], ['text', '2015-08-24T10:15:00'],
             ['text', '24 Aug 2015, 10:15'], ['text', '']]


def dress(t, c):
    """group metadata (constructor arguments or add_group_metadata) and the table's own create_date"""
    gm = c.get('grp_md')
    if gm:
        tup = {ax: {k: tuple(v) for k, v in d.items()} for ax, d in gm.items()}
        if c.get('grp_how') == 'add':
            for ax, d in tup.items():
                t.add_group_metadata(d, axis=ax)
        else:
            ty = t.type
            t = Table(t.matrix_data, t.ids(axis='observation'), t.ids(), t.metadata(axis='observation'), t.metadata(),
                      type=ty, observation_group_metadata=tup.get('observation'),
                      sample_group_metadata=tup.get('sample'))
    od = c.get('own_date')
    if od:
        t.create_date = datetime.datetime(*od[1]) if od[0] == 'dt' else od[1]
    return t


def final_tz(c):
    """the file under test was written with a tz-aware creation_date= (the second generation is written without)"""
    return tz_aware(c) and c.get('generation', 1) == 1


def base_doc(c):
    """the document the library writes: the returned string, or the direct_io stream; second generation = the
    document is loaded and written again"""
    t = dress(tables.build(c['spec']), c)
    dt = case_date(c, [2020, 1, 2, 3, 4, 5, 6])
    if c.get('generation', 1) == 2:
        t = Table.from_json(json.loads(t.to_json(c.get('generated_by', 'gen'), creation_date=dt)))
        dt = None
    if c.get('writer') == 'direct_io':
        import io
        buf = io.StringIO()
        t.to_json(c.get('generated_by', 'gen'), direct_io=buf, creation_date=dt)
        return json.loads(buf.getvalue())
    return json.loads(t.to_json(c.get('generated_by', 'gen'), creation_date=dt))


def mutant_doc(c):
    doc = base_doc(c)
    for mu in c['muts']:
        apply_mut(doc, mu)
    return doc


def exc_code(e):
    for cls, code in ((KeyError, 4), (IndexError, 8), (ValueError, 5), (TypeError, 6), (AttributeError, 7)):
        if isinstance(e, cls):
            return code
    from biom.exception import TableException
    if isinstance(e, TableException):
        return 1
    return 9


LINE_RULES = [
    (r"^Missing field: '(\w+)'$", lambda g: [1, KEYS.index(g[0])]),
    (r"^Invalid format '", lambda g: [2]),
    (r"^Invalid 'format[_-]url'$", lambda g: [3]),
    (r"^Unknown table type, however", lambda g: [4]),
    (r"^Unknown BIOM type:", lambda g: [5]),
    (r"^'id' in .* appears empty$", lambda g: [6]),
    (r"^metadata is neither null or an object$", lambda g: [7]),
    (r"^(ROW|COL) IDX (\d+) MISSING '(\w+)' FIELD$", lambda g: [8, 0 if g[0] == 'ROW' else 1, int(g[1]),
                                                               0 if g[2] == 'id' else 1]),
    (r"^(ROW|COL) IDX (\d+) HAS A DUPLICATE 'id'", lambda g: [9, 0 if g[0] == 'ROW' else 1, int(g[1])]),
    (r"^'shape' values do not appear to be integers$", lambda g: [10]),
    (r"^Bad matrix entry idx (\d+):", lambda g: [11, int(g[0])]),
    (r"^Bad x or y type at idx (\d+):", lambda g: [12, int(g[0])]),
    (r"^Bad value at idx (\d+):", lambda g: [13, int(g[0])]),
    (r"^x out of bounds at idx (\d+):", lambda g: [14, int(g[0])]),
    (r"^y out of bounds at idx (\d+):", lambda g: [15, int(g[0])]),
    (r"^Incorrect number of cols:", lambda g: [16]),
    (r"^Bad datatype in row:", lambda g: [17]),
    (r"^Incorrect number of rows in matrix$", lambda g: [18]),
    (r"^Unknown matrix type$", lambda g: [19]),
    (r"^Unknown 'matrix_type'$", lambda g: [20]),
    (r"^Unknown 'matrix_element_type'$", lambda g: [21]),
    (r"^'generated_by' is not populated$", lambda g: [22]),
    (r"^Timestamp does not appear to be ISO 8601$", lambda g: [23]),
    (r"^Number of rows in 'rows' is not equal to 'shape'$", lambda g: [24]),
    (r"^Number of columns in 'columns' is not equal to 'shape'$", lambda g: [25]),
    (r"^'(rows|columns)' is not a list$", lambda g: [26, 0 if g[0] == 'rows' else 1]),
    (r"^'data' is not a list$", lambda g: [27]),
    (r"^Empty ID in (observation|sample)/ids$", lambda g: [115, 0 if g[0] == 'observation' else 1]),
    (r"^(observation|sample)/matrix/data is not numeric$", lambda g: [109, 0 if g[0] == 'observation' else 1, 5]),
    (r"^(observation|sample)/matrix/(indices|indptr) is not of an integer type$",
     lambda g: [109, 0 if g[0] == 'observation' else 1, 6 if g[1] == 'indices' else 7]),
    (r"^WARNING: 2.0 is not actively supported!$", lambda g: [116]),
    (r"^(Observation|Sample) metadata do not appear to be formatted correctly$",
     lambda g: [117, 0 if g[0] == 'Observation' else 1]),
    (r"^Missing attribute: '(.*)'$", lambda g: [101, H_ATTRS.index(g[0])]),
    (r"^Missing required '(.*)' group$", lambda g: [102, H_GROUPS.index(g[0])]),
    (r"^Missing required '(.*)' dataset$", lambda g: [103, H_DATASETS.index(g[0])]),
    (r"^Duplicate ID in (observation|sample)/ids:", lambda g: [104, 0 if g[0] == 'observation' else 1]),
    (r"^observation/ids does not exist", lambda g: [105]),
    (r"^sample/ids does not exist", lambda g: [106]),
    (r"^Number of observation IDs is not equal", lambda g: [107]),
    (r"^Number of sample IDs is not equal", lambda g: [108]),
    (r"^(observation|sample)/matrix/indices has \d+ entries", lambda g: [109, 0 if g[0] == 'observation' else 1, 0]),
    (r"^(observation|sample)/matrix/indptr has \d+ entries", lambda g: [109, 0 if g[0] == 'observation' else 1, 1]),
    (r"^(observation|sample)/matrix/indptr does not span", lambda g: [109, 0 if g[0] == 'observation' else 1, 2]),
    (r"^(observation|sample)/matrix/indptr is decreasing", lambda g: [109, 0 if g[0] == 'observation' else 1, 3]),
    (r"^(observation|sample)/matrix/indices out of bounds", lambda g: [109, 0 if g[0] == 'observation' else 1, 4]),
    (r"^Missing 'shape' attribute$", lambda g: [110]),
    (r"^Table indicates it is version", lambda g: [111]),
    (r"^Observation/metadata group is missing$", lambda g: [112, 0]),
    (r"^Observation/group-metadata is missing$", lambda g: [112, 1]),
    (r"^Sample/metadata group is missing$", lambda g: [112, 2]),
    (r"^Sample/group-metadata is missing$", lambda g: [112, 3]),
    (r"^\S+ has \d+ entries, but expected \d+$", lambda g: [112, 4]),
    (r"^Invalid format version", lambda g: [113]),
    (r"^nnz is not an integer!$", lambda g: [114, 0]),
    (r"^nnz is negative!$", lambda g: [114, 1]),
]


def line_code(line):
    for rx, f in LINE_RULES:
        mo = re.match(rx, line, re.S)
        if mo:
            return f(mo.groups())
    return [999, line[:60]]


def ids_are_text(doc):
    try:
        for ax in ('rows', 'columns'):
            recs = doc[ax]
            if isinstance(recs, list):
                for r in recs:
                    if not isinstance(r['id'], str):
                        return False
        return True
    except (KeyError, TypeError):
        return True


def load_snapshot(t):
    s = tables.snapshot(t)
    return {'oids': s['oids'], 'sids': s['sids'], 'mat': tables.norm_snap(s)['mat'],
            'omd': norm_md(s['omd']), 'smd': norm_md(s['smd']), 'type': s['type'], 'generated_by': t.generated_by}


def norm_md(md):
    if md is None or all(not m for m in md):
        return None
    return [m if m else {} for m in md]


SPELLINGS = [None, 'None', '2.1', '2.1.0', '2.0', '2.0.0', '1.0', '1.0.0', '3.0', '2', 'x.y', '', '2.1.0.0', '2.1.']
H5_21 = (None, 'None', '2.1', '2.1.0')          # every spelling of the version the library writes
H5_20 = ('2.0', '2.0.0')
JSON_OK = (None, 'None', '1.0.0')


def cli_verdict(path, fv=None):
    from click.testing import CliRunner
    r = CliRunner().invoke(validate_table, ['-i', path] + ([] if fv is None else ['-f', fv]))
    out = r.output or ''
    if 'The input file is a valid BIOM-formatted file.' in out and r.exit_code == 0:
        return 'valid'
    if 'The input file is not a valid BIOM-formatted file.' in out and r.exit_code == 1:
        return 'invalid'
    return 'crash'


def run_json(c):
    doc = mutant_doc(c)
    path = os.path.join(tmpdir(), 'm.biom')
    with open(path, 'w') as fh:
        json.dump(doc, fh)
    obs = {}
    try:
        valid, lines = _validate_table(path, c.get('fv'))
        obs['valid'] = bool(valid)
        obs['report'] = [line_code(ln) for ln in lines]
    except Exception as e:  # noqa
        obs['valid'] = ['exc', exc_code(e)]
        obs['report'] = []
    obs['cli'] = cli_verdict(path, c.get('fv'))
    if c.get('subprocess'):
        p = subprocess.run(['/venv/bin/biom', 'validate-table', '-i', path] +
                           ([] if c.get('fv') is None else ['-f', c['fv']]), stdout=subprocess.PIPE,
                           stderr=subprocess.STDOUT, text=True, env=dict(os.environ, PYTHONPATH=os.environ.get(
                               'BIOM_REPO', '/repo')))
        obs['cli'] = [obs['cli'], 'valid' if p.returncode == 0 else 'invalid' if 'not a valid' in p.stdout else 'crash']
    obs['load'] = None
    if obs['valid'] is True:
        if not ids_are_text(doc):
            obs['load'] = 'not modelled: non-text id'
        else:
            try:
                obs['load'] = load_snapshot(load_table(path))
            except Exception as e:  # noqa
                obs['load'] = ['err', exc_code(e)]
    tags = []
    if obs['valid'] is True and c['muts']:
        tags.append('json-accepted-mutant:' + ('loads' if isinstance(obs['load'], dict) else
                                               'not-compared' if isinstance(obs['load'], str) else 'does-not-load'))
    return obs, doc, tags


def h5_tree(path):
    """the mutated file as the tree the model sees"""
    def attr(v):
        if isinstance(v, bytes):
            v = v.decode('utf8')
        if isinstance(v, str):
            return [0, [ord(ch) for ch in v]]
        if isinstance(v, np.ndarray):
            if v.dtype.kind in 'iu':
                return [3, [int(x) for x in v.ravel()]]
            return [4, [scaled(float(x)) for x in v.ravel()]]
        if isinstance(v, (np.integer, int)) and not isinstance(v, bool):
            return [1, int(v)]
        if isinstance(v, (np.floating, float)):
            return [2, scaled(float(v))]
        return [0, [ord(ch) for ch in repr(v)]]

    def node(n):
        if isinstance(n, h5py.Group):
            return [0, [[[ord(ch) for ch in k], node(n[k])] for k in n]]
        a = n[()] if n.shape == () else n[:]
        a = np.asarray(a)
        if a.dtype.kind in 'OSU':
            if a.ndim > 1:
                return [1, [[] for _ in range(a.shape[0])]]
            return [1, [[ord(ch) for ch in (x.decode('utf8') if isinstance(x, bytes) else str(x))] for x in a.ravel()]]
        if a.dtype.kind in 'iu':
            if a.ndim > 1:
                return [2, [0] * a.shape[0]]
            return [2, [int(x) for x in a.ravel()]]
        if a.dtype.kind != 'f':
            return [5, int(a.shape[0]) if a.ndim else 1]        # bool, complex, ...
        if a.ndim > 1:
            return [3, [0] * a.shape[0]]
        return [3, [scaled(float(x)) for x in a.ravel()]]
    with h5py.File(path, 'r') as h:
        attrs = [[[ord(ch) for ch in k], attr(h.attrs[k])] for k in h.attrs]
        root = [[[ord(ch) for ch in k], node(h[k])] for k in h]
    return [attrs, root]


def scaled(x):
    k = x * SCALE
    if k != int(k):
        return int(round(k))          # only ever compared for equality with itself
    return int(k)


def load_in_child(path):
    """load an accepted HDF5 file in a forked child: a file whose indices do not fit its shape can
    corrupt the heap inside scipy, which must not take the check down with it"""
    pid = os.fork()
    if pid == 0:
        try:
            load_table(path)
            os._exit(0)
        except BaseException:  # noqa
            os._exit(1)
    _, status = os.waitpid(pid, 0)
    if os.WIFSIGNALED(status):
        return 'crashes-the-interpreter'
    return 'loads' if os.WEXITSTATUS(status) == 0 else 'does-not-load'


def run_h5(c):
    t = dress(tables.build(c['spec']), c)
    if c.get('via_json'):
        # as a table written by another tool comes in: through the JSON reader
        t = Table.from_json(json.loads(t.to_json('other tool')))
    path = os.path.join(tmpdir(), 'm.h5')
    if os.path.exists(path):
        os.unlink(path)
    dt = case_date(c, 'now')
    if c.get('generation', 1) == 2:
        # second generation: a written file is loaded and written again
        first = os.path.join(tmpdir(), 'first.h5')
        if os.path.exists(first):
            os.unlink(first)
        with h5py.File(first, 'w') as h:
            t.to_hdf5(h, c.get('generated_by', 'gen'), creation_date=dt)
        t = load_table(first)
        dt = None
    ub = {'userblock_size': c['userblock']} if c.get('userblock') else {}
    with h5py.File(path, 'w', **ub) as h:
        try:
            t.to_hdf5(h, c.get('generated_by', 'gen'), creation_date=dt)
        except Exception as e:  # noqa
            # the writer refuses the table: there is no file to validate (the HDF5 writer is not modelled here)
            return {'valid': ['writer-refused', exc_code(e)], 'report': [], 'cli': 'no file'}, (None, None), \
                ['h5-writer-refused']
        for mu in c['muts']:
            try:
                apply_h5(h, mu)
            except (TypeError, ValueError, IndexError, KeyError, AttributeError, OSError, RuntimeError):
                pass                 # a descriptor that does not fit the (already mutated) file is a no-op
    tree = h5_tree(path)
    obs = {}
    try:
        valid, lines = _validate_table(path, c.get('fv'))
        obs['valid'] = bool(valid)
        obs['report'] = [line_code(ln) for ln in lines]
    except Exception as e:  # noqa
        obs['valid'] = ['exc', exc_code(e)]
        obs['report'] = []
    obs['cli'] = cli_verdict(path, c.get('fv'))
    tags = []
    if obs['valid'] is True:
        key = 'h5-accepted-mutant' if c['muts'] else 'h5-library-written'
        tags.append(key + ':' + load_in_child(path))
    facts = h5_facts(path)
    return obs, (tree, facts), tags


def materialise(c):
    k = jhash(c)
    if k not in CACHE:
        if len(CACHE) > 200000:
            CACHE.clear()
        CACHE[k] = run_json(c) if c['kind'] == 'json' else run_h5(c)
    return CACHE[k]


def run_impl(c):
    return materialise(c)[0]


# ---------------------------------------------------------------- wire
def enc_json(x):
    if x is None:
        return [0]
    if isinstance(x, bool):
        return [1, int(x)]
    if isinstance(x, int):
        return [2, x]
    if isinstance(x, float):
        k = x * SCALE
        if k != int(k):
            raise ValueError('float %r is not a multiple of 1/64' % x)
        return [3, int(k)]
    if isinstance(x, str):
        return [4, [ord(ch) for ch in x]]
    if isinstance(x, (list, tuple)):
        return [5, [enc_json(v) for v in x]]
    if isinstance(x, dict):
        return [6, [[[ord(ch) for ch in str(k)], enc_json(v)] for k, v in x.items()]]
    raise TypeError(type(x))


def dec_json(t):
    k = t[0]
    if k == 0:
        return None
    if k == 1:
        return bool(t[1])
    if k == 2:
        return t[1]
    if k == 3:
        return t[1] / SCALE
    if k == 4:
        return ''.join(chr(x) for x in t[1])
    if k == 5:
        return [dec_json(v) for v in t[1]]
    return {''.join(chr(x) for x in a): dec_json(b) for a, b in t[1]}


def encode(c):
    obs, extra, _ = materialise(c)
    fv = [] if c.get('fv') is None else [[ord(ch) for ch in c['fv']]]
    if c['kind'] == 'json':
        return [0, enc_json(extra), fv]
    if extra[0] is None:
        return [1, [[], []], fv]
    return [1, extra[0], fv]


def decode(tree, c):
    obs, extra, _ = materialise(c)
    if c['kind'] == 'json':
        rep, valid, load = tree
        if rep[0] == -1:
            out = {'valid': ['exc', rep[1]], 'report': [], 'cli': 'crash', 'load': None}
        else:
            out = {'valid': bool(valid), 'report': rep[1], 'cli': 'valid' if valid else 'invalid', 'load': None}
        if c.get('subprocess'):
            out['cli'] = [out['cli'], out['cli']]
        if out['valid'] is True:
            if not ids_are_text(extra):
                out['load'] = 'not modelled: non-text id'
            elif load[0] == -1:
                out['load'] = ['err', load[1]]
            else:
                tr = load[1]

                def md(m):
                    return None if not m else norm_md([dec_json(x) for x in m[0]])
                out['load'] = {'oids': [''.join(chr(x) for x in i) for i in tr[0]],
                               'sids': [''.join(chr(x) for x in i) for i in tr[1]],
                               'mat': [[k / SCALE for k in row] for row in tr[2]] if tr[0] and tr[1] else [[] for _ in tr[0]],
                               'omd': md(tr[3]), 'smd': md(tr[4]), 'type': dec_json(tr[5]),
                               'generated_by': dec_json(tr[6])}
        return out
    if extra[0] is None:
        return obs                   # the writer refused: nothing was validated on either side
    rep = tree[0]
    if rep[0] == -1:
        return {'valid': ['exc', rep[1]], 'report': [], 'cli': 'crash'}
    return {'valid': bool(rep[1][0]), 'report': rep[1][1], 'cli': 'valid' if rep[1][0] else 'invalid'}


# ---------------------------------------------------------------- oracle (the property text)
def json_violations(doc):
    """structural rules of the property, checked directly on the (mutated) document"""
    bad = []
    if not isinstance(doc, dict):
        return ['document is not an object']
    for k in KEYS:
        if k not in doc:
            bad.append('required field %s missing' % k)
    rows, cols, sh = doc.get('rows'), doc.get('columns'), doc.get('shape')
    shape_ok = isinstance(sh, list) and len(sh) == 2 and all(type(x) is int for x in sh)
    for name, recs, pos in (('rows', rows, 0), ('columns', cols, 1)):
        if name not in doc:
            continue
        if not isinstance(recs, (list, dict, str)):
            bad.append('%s is not a list' % name)
            continue
        if 'shape' in doc and (not shape_ok or sh[pos] != len(recs)):
            bad.append('shape disagrees with the number of %s' % name)
        if not isinstance(recs, list):
            if len(recs):
                bad.append('%s is not a list of records' % name)
            continue
        seen = set()
        for r in recs:
            if not isinstance(r, dict) or 'id' not in r or 'metadata' not in r:
                bad.append('%s record without id/metadata' % name)
                continue
            i = r['id']
            if i is None or i == '' or (isinstance(i, (list, dict)) and not i):
                bad.append('empty ID in %s' % name)
            elif isinstance(i, str):
                if i in seen:
                    bad.append('duplicate ID in %s' % name)
                seen.add(i)
            if r['metadata'] is not None and not isinstance(r['metadata'], dict):
                bad.append('metadata of a %s record is neither an object nor null' % name)
    met, mt, data = doc.get('matrix_element_type'), doc.get('matrix_type'), doc.get('data')

    def of_kind(v):
        if met == 'int':
            return type(v) is int
        if met == 'float':
            return type(v) in (int, float)
        if met in ('str', 'unicode'):
            return isinstance(v, str)
        return False
    if 'data' in doc and 'matrix_type' in doc and 'matrix_element_type' in doc:
        if mt == 'sparse' and isinstance(data, list):
            for cd in data:
                if not (isinstance(cd, list) and len(cd) == 3 and type(cd[0]) is int and type(cd[1]) is int):
                    bad.append('malformed or mistyped coordinate %r' % (cd,))
                elif shape_ok and not (0 <= cd[0] < sh[0] and 0 <= cd[1] < sh[1]):
                    bad.append('coordinate %r outside the shape' % (cd,))
                elif not of_kind(cd[2]):
                    bad.append('element %r is not of type %r' % (cd[2], met))
        elif mt == 'dense' and isinstance(data, list):
            if shape_ok and (len(data) != sh[0] or any(not isinstance(r, list) or len(r) != sh[1] for r in data)):
                bad.append('dense data do not have the declared shape')
            elif any(not of_kind(v) for r in data if isinstance(r, list) for v in r):
                bad.append('dense element of the wrong type')
    return bad


def json_expected_load(doc):
    """declared shape, IDs and values of an accepted numeric document (reference, numpy only)"""
    sh = doc['shape']
    oids = [r['id'] for r in doc['rows']] if isinstance(doc['rows'], list) else []
    sids = [r['id'] for r in doc['columns']] if isinstance(doc['columns'], list) else []
    M = np.zeros((sh[0], sh[1]))
    data = doc['data'] if isinstance(doc['data'], list) else []
    if doc['matrix_type'] == 'sparse':
        for x, y, v in data:
            M[x, y] += float(v)
    else:
        for i, r in enumerate(data):
            for j, v in enumerate(r):
                M[i, j] = float(v)
    return oids, sids, M


def h5_facts(path):
    """what the property's structural rules need to know about an HDF5 file (h5py only)"""
    f = {'missing': [], 'blank': [], 'dup': [], 'shape_ids': None, 'range': [], 'elem': [], 'version': None}
    with h5py.File(path, 'r') as h:
        if 'format-version' in h.attrs:
            try:
                f['version'] = [int(x) for x in h.attrs['format-version']]
            except (TypeError, ValueError):
                f['version'] = repr(h.attrs['format-version'])
        for a in H_ATTRS:
            if a not in h.attrs:
                f['missing'].append('attribute ' + a)
        for g in SPEC_GROUPS:
            if g not in h or not isinstance(h[g], h5py.Group):
                f['missing'].append('group ' + g)
        for d in H_DATASETS:
            if d not in h or not isinstance(h[d], h5py.Dataset):
                f['missing'].append('dataset ' + d)
        sh = h.attrs.get('shape')
        sh_ok = isinstance(sh, np.ndarray) and sh.shape == (2,) and sh.dtype.kind in 'iu'
        for pos, ax in enumerate(('observation', 'sample')):
            p = ax + '/ids'
            if p in h and isinstance(h[p], h5py.Dataset):
                ids = list(h[p][:])
                if any(i in (b'', '') for i in ids):
                    f['blank'].append(ax)
                if len(set(ids)) != len(ids):
                    f['dup'].append(ax)
                if 'shape' in h.attrs and (not sh_ok or int(sh[pos]) != len(ids)):
                    f['shape_ids'] = ax
            base = ax + '/matrix/'
            if all((base + n) in h and isinstance(h[base + n], h5py.Dataset) for n in ('data', 'indices', 'indptr')) \
                    and sh_ok:
                ind, ptr, dat = h[base + 'indices'][:], h[base + 'indptr'][:], h[base + 'data']
                npos = int(sh[1 - pos])
                if ind.dtype.kind in 'iu' and len(ind) and (ind.min() < 0 or ind.max() >= npos):
                    f['range'].append(ax)
                if dat.dtype.kind not in 'fiu':
                    f['elem'].append(ax + ' data')
                if ind.dtype.kind not in 'iu':
                    f['elem'].append(ax + ' indices')
                if ptr.dtype.kind not in 'iu':
                    f['elem'].append(ax + ' indptr')
    return f


def oracle(c, obs):
    fails = []
    _, extra, _ = materialise(c)
    if c['kind'] == 'h5' and extra[0] is None:
        # to_hdf5 refused the table: allowed only where the case says the writer may refuse
        return [] if c.get('may_refuse') else ['to_hdf5 refused a table: %s' % (obs['valid'],)]
    valid = obs['valid'] is True
    api_cli = obs['cli'] if isinstance(obs['cli'], list) else [obs['cli']]
    want_cli = 'valid' if valid else ('crash' if isinstance(obs['valid'], list) else 'invalid')
    if any(v != want_cli for v in api_cli):
        fails.append('validate-table command says %s, the python API says %s' % (obs['cli'], obs['valid']))
    if any(r[0] == 999 for r in obs['report']):
        fails.append('unrecognised report line %s' % [r for r in obs['report'] if r[0] == 999][:1])
    if c['kind'] == 'json':
        doc = extra
        if not c['muts'] and c.get('fv') in JSON_OK:
            if not valid:
                fails.append('library-written JSON file (%s form, --format-version %r) of a vocabulary-type table is not '
                             'reported valid: %s %s' % (c.get('writer', 'returned string'), c.get('fv'), obs['valid'],
                                                        obs['report']))
        if valid and c.get('fv') not in JSON_OK:
            fails.append('a JSON file is reported valid as format version %r' % c.get('fv'))
        bad = json_violations(doc)
        if bad and valid:
            fails.append('reported valid although: %s' % '; '.join(bad[:2]))
        if valid and doc.get('matrix_element_type') in ('int', 'float'):
            ld = obs['load']
            if isinstance(ld, str):
                pass                                   # non-text IDs: see docs/C15.md
            elif not isinstance(ld, dict):
                fails.append('reported valid (numeric element type) but cannot be loaded: %s' % (ld,))
            elif not bad:
                oids, sids, M = json_expected_load(doc)
                got = np.array(ld['mat'], dtype=float).reshape(len(ld['oids']), len(ld['sids']))
                if ld['oids'] != oids or ld['sids'] != sids:
                    fails.append('loaded IDs differ from the declared ones')
                elif got.shape != M.shape or not np.array_equal(got, M):
                    fails.append('loaded values differ from the declared ones')
        return fails[:3]
    tree, facts = extra
    fv = c.get('fv')
    if not c['muts'] and fv in H5_21 and not valid:
        fails.append('library-written HDF5 file of a vocabulary-type table is not reported valid with '
                     '--format-version %r: %s %s' % (fv, obs['valid'], obs['report']))
    if valid:
        if fv not in H5_21 + H5_20:
            fails.append('an HDF5 file is reported valid as format version %r' % fv)
        elif facts['version'] != ([2, 0] if fv in H5_20 else [2, 1]):
            fails.append('reported valid as format version %r although the file says %s' % (fv, facts['version']))
        for m in facts['missing']:
            if fv in H5_20 and m.endswith('metadata'):
                continue                         # BIOM 2.0 has no metadata groups
            fails.append('reported valid although required %s is missing' % m)
        for ax in facts['blank']:
            fails.append('reported valid although a %s ID is empty' % ax)
        for ax in facts['dup']:
            fails.append('reported valid although a %s ID is duplicated' % ax)
        if facts['shape_ids']:
            fails.append('reported valid although shape disagrees with the number of %s IDs' % facts['shape_ids'])
        for ax in facts['range']:
            fails.append('reported valid although a %s index lies outside the shape' % ax)
        for ax in facts['elem']:
            fails.append('reported valid although the elements of %s have the wrong type' % ax)
    return fails[:3]


# ---------------------------------------------------------------- generation
BASES = [
    {'oids': ['o1', 'o2'], 'sids': ['s1', 's2', 's3'], 'mat': [[1.5, 0.0, 2.0], [0.0, 0.0, 3.0]],
     'omd': [{'taxonomy': ['k__A', 'p__B']}, {'taxonomy': ['k__A']}], 'smd': None, 'type': 'OTU table',
     'layout': ['dense']},
    {'oids': ['a', 'b', 'c'], 'sids': ['x', 'y'], 'mat': [[0.0, 0.0], [4.0, 0.0], [1.0, 7.0]],
     'omd': None, 'smd': [{'g': 'g1'}, {'g': 'g2'}], 'type': 'Taxon table', 'layout': ['csc', 'colaccess']},
]


def tax_spec(omd):
    n = len(omd)
    return {'oids': ['O%d' % (i + 1) for i in range(n)], 'sids': ['S1', 'S2'],
            'mat': [[float(i + 1), 0.0] if i % 2 == 0 else [0.0, 2.0] for i in range(n)],
            'omd': omd, 'smd': None, 'type': 'OTU table', 'layout': ['dense']}


TAX_SPECS = [
    tax_spec([{'taxonomy': 'k__Bacteria; p__Firmicutes'}, {'taxonomy': None}, {'taxonomy': 'k__Archaea; p__Euryarchaeota'}]),
    tax_spec([{'taxonomy': None}, {'taxonomy': 'k__Bacteria; p__Firmicutes'}]),
    tax_spec([{'taxonomy': 'k__Bacteria; p__Firmicutes'}, {'taxonomy': 'k__Archaea'}]),
    tax_spec([{'taxonomy': ['k__Bacteria', 'p__Firmicutes']}, {'taxonomy': None}, {'taxonomy': ['k__Archaea']}]),
    tax_spec([{'taxonomy': ['k__Bacteria', 'p__Firmicutes']}, {'taxonomy': 'k__Archaea; p__X'}]),
    tax_spec([{'taxonomy': 'k__Bacteria'}, None, {'taxonomy': 'k__Archaea; p__X'}]),
    tax_spec([{'taxonomy': None}, {'taxonomy': None}]),
    tax_spec([{'KEGG_Pathways': 'a; b'}, {'KEGG_Pathways': None}]),
]


def rand_table(rng):
    spec = tables.rand_spec(rng, max_r=4, max_c=4, ttype=rng.choice(VOCAB))
    return spec


def gen(rng, tier):
    for b in BASES:
        nr, nc = len(b['oids']), len(b['sids'])
        yield {'kind': 'json', 'spec': b, 'muts': []}
        yield {'kind': 'json', 'spec': b, 'muts': [], 'writer': 'direct_io'}
        for dform in DATE_FORMS:
            # the optional creation_date= argument of the three writers
            yield {'kind': 'json', 'spec': b, 'muts': [], 'date': dform}
            yield {'kind': 'json', 'spec': b, 'muts': [], 'writer': 'direct_io', 'date': dform}
            yield {'kind': 'h5', 'spec': b, 'muts': [], 'date': dform}
        for ub in (512, 1024):
            # an HDF5 file may start with a user block (F46)
            yield {'kind': 'h5', 'spec': b, 'muts': [], 'userblock': ub}
            yield {'kind': 'h5', 'spec': b, 'muts': [], 'userblock': ub, 'fv': '2.1.0'}
            yield {'kind': 'h5', 'spec': b, 'muts': [['ids', 'sample', 'blank']], 'userblock': ub}
        for gmd in GROUP_MD:
            # group metadata on either / both axes, first and second generation files, the table's own create_date
            for how in ('ctor', 'add'):
                for generation in (1, 2):
                    if gmd is None and how == 'add':
                        continue
                    yield {'kind': 'h5', 'spec': b, 'muts': [], 'grp_md': gmd, 'grp_how': how, 'generation': generation}
        for od in OWN_DATES[1:]:
            for generation in (1, 2):
                yield {'kind': 'h5', 'spec': b, 'muts': [], 'own_date': od, 'generation': generation}
                yield {'kind': 'json', 'spec': b, 'muts': [], 'own_date': od, 'generation': generation, 'date': 'now'}
                yield {'kind': 'json', 'spec': b, 'muts': [], 'own_date': od, 'generation': generation, 'date': 'now',
                       'writer': 'direct_io'}
        yield {'kind': 'json', 'spec': b, 'muts': [], 'generation': 2}
        for fv in SPELLINGS[1:]:
            # every spelling of --format-version on library-written files of the three forms
            yield {'kind': 'json', 'spec': b, 'muts': [], 'fv': fv}
            yield {'kind': 'json', 'spec': b, 'muts': [], 'writer': 'direct_io', 'fv': fv}
            yield {'kind': 'h5', 'spec': b, 'muts': [], 'fv': fv}
            for mu in (['v20', 'plain'], ['v20', 'keep-groups'], ['v20', 'int-md'],
                       ['aset', 'format-version', 'ints', [2, 1, 0]], ['aset', 'format-version', 'ints', [2, 0, 0]],
                       ['gdel', 'observation/metadata'], ['ids', 'sample', 'blank']):
                yield {'kind': 'h5', 'spec': b, 'muts': [mu], 'fv': fv}
        for mu in mutations(nr, nc):
            yield {'kind': 'json', 'spec': b, 'muts': [mu]}
        yield {'kind': 'h5', 'spec': b, 'muts': []}
        for mu in h5_mutations(nr, nc):
            yield {'kind': 'h5', 'spec': b, 'muts': [mu]}
    for ts in TAX_SPECS:
        # taxonomy as other tools write it (flat text, null on some rows): the writer may refuse, a file it
        # writes has to validate
        for via in (True, False):
            yield {'kind': 'h5', 'spec': ts, 'muts': [], 'via_json': via, 'may_refuse': True}
            yield {'kind': 'json', 'spec': ts, 'muts': []}
    n_un, n_rand, n_h5 = (120, 500, 160) if tier == 'quick' else (1200, 3000, 1500)
    for _ in range(n_un):
        s = rand_table(rng)
        yield {'kind': 'json', 'spec': s, 'muts': [], 'generated_by': rng.choice(['gen', 'x y', 'biom 2.1']),
               'date': rand_date(rng)}
        yield {'kind': 'json', 'spec': s, 'muts': [], 'writer': 'direct_io', 'generated_by': rng.choice(['gen', 'x y']),
               'date': rand_date(rng)}
        yield {'kind': 'h5', 'spec': s, 'muts': [], 'date': rand_date(rng), 'grp_md': rng.choice(GROUP_MD),
               'grp_how': rng.choice(['ctor', 'add']), 'generation': rng.choice([1, 2]), 'own_date': rng.choice(OWN_DATES),
               'userblock': rng.choice([0, 0, 0, 512, 1024, 4096])}
        yield {'kind': 'json', 'spec': s, 'muts': [], 'date': rand_date(rng), 'generation': rng.choice([1, 2]),
               'own_date': rng.choice(OWN_DATES), 'writer': rng.choice(['direct_io', 'string'])}
        yield {'kind': 'h5', 'spec': s, 'muts': [], 'fv': rng.choice(SPELLINGS)}
        yield {'kind': 'json', 'spec': s, 'muts': [], 'fv': rng.choice(SPELLINGS),
               'writer': rng.choice(['direct_io', 'string'])}
    for _ in range(n_rand):
        s = rand_table(rng)
        ms = mutations(len(s['oids']), len(s['sids']))
        c = {'kind': 'json', 'spec': s, 'muts': [rng.choice(ms) for _ in range(rng.choice([1, 2, 2]))]}
        if rng.random() < 0.3:
            c['writer'] = 'direct_io'
        if rng.random() < 0.2:
            c['fv'] = rng.choice(['None', '1.0.0', '1.0.0', '1.0', '2.1'])
        yield c
    for _ in range(n_h5):
        s = rand_table(rng)
        ms = h5_mutations(len(s['oids']), len(s['sids']))
        c = {'kind': 'h5', 'spec': s, 'muts': [rng.choice(ms) for _ in range(rng.choice([1, 2, 2]))]}
        if rng.random() < 0.4:
            c['fv'] = rng.choice(['None', '2.1', '2.1.0', '2.1.0', '2.0', '2.0.0', '1.0.0'])
        yield c
    if tier == 'thorough':
        b = BASES[0]
        ms = mutations(2, 3, offsets=('+05:30', 'Z', '+25:00', '+0'))      # pairs: four of the 39 offset texts
        for i, m1 in enumerate(ms):
            for j, m2 in enumerate(ms):
                yield {'kind': 'json', 'spec': b, 'muts': [m1, m2]}
        hs = h5_mutations(2, 3)
        for m1 in hs:
            for m2 in hs:
                yield {'kind': 'h5', 'spec': b, 'muts': [m1, m2]}
        for fv in ('2.1', '2.1.0', '2.0', '2.0.0', 'None'):
            for m1 in hs:
                yield {'kind': 'h5', 'spec': b, 'muts': [m1], 'fv': fv}
        for fv in ('1.0.0', 'None'):
            for m1 in ms:
                yield {'kind': 'json', 'spec': b, 'muts': [m1], 'fv': fv}
        for k in range(40):
            yield {'kind': 'json', 'spec': BASES[1], 'muts': [rng.choice(mutations(3, 2))], 'subprocess': True}


def nontrivial(c):
    return bool(c['muts']) or any(v != 0 for row in c['spec']['mat'] for v in row)


def classify(c):
    tags = [c['kind'] + (':mutations=%d' % len(c['muts'])), '%s:format-version=%r' % (c['kind'], c.get('fv'))]
    if c['kind'] == 'json':
        tags.append('json-writer:' + c.get('writer', 'string'))
    if not c['muts']:
        if c.get('grp_md'):
            tags.append('h5-group-metadata:%s:%s' % ('+'.join(sorted(c['grp_md'])), c.get('grp_how', 'ctor')))
        if c.get('generation', 1) == 2:
            tags.append('%s-second-generation' % c['kind'])
        if c.get('userblock'):
            tags.append('h5-userblock:%d' % c['userblock'])
        if c.get('own_date'):
            tags.append('%s-own-create_date:%s' % (c['kind'], c['own_date'][0] if c['own_date'][0] == 'dt' else repr(c['own_date'][1])))
    if not c['muts'] and 'date' in c:
        d = c['date']
        tags.append('%s-creation_date:%s' % (c['kind'], 'now()' if d == 'now' else 'tz-aware' if tz_aware(c) else
                                               'with microseconds' if d[6] else 'without microseconds'))
    for mu in c['muts']:
        tags.append('%s:%s' % (c['kind'], mu[0]))
    tags.append('layout0:' + str((c['spec'].get('layout') or ['dense'])[0]))
    obs = CACHE.get(jhash(c))
    if obs:
        v = obs[0]['valid']
        tags.append('%s-verdict:%s' % (c['kind'], 'valid' if v is True else 'invalid' if v is False else 'exception'))
        tags += obs[2]
    return tags


def shrink(c):
    if len(c['muts']) > 1:
        for i in range(len(c['muts'])):
            yield dict(c, muts=c['muts'][:i] + c['muts'][i + 1:])
    s = c['spec']
    if s is not BASES[0] and s != BASES[0]:
        yield dict(c, spec=BASES[0])
    if s.get('layout') not in ([], ['dense']):
        yield dict(c, spec=dict(s, layout=['dense']))


SIGNATURES = {}
