"""C16: equality and serialisation depend only on content, never on representation.

A case is a small WORLD of 2-3 tables built through different routes from one content (or from
a content with exactly one difference), and a PROGRAM of read accessors and comparisons applied
to them in a random order.  The real scipy arrays of every table are handed to the model, which
predicts every verdict and the arrays every step leaves behind; after the program the three
exports of the equal-content tables are compared."""
import copy
import datetime
import io
import json
import os
import tempfile

import h5py
import numpy as np
from scipy.sparse import (bsr_matrix, coo_matrix, csc_matrix, csr_matrix, dok_matrix, lil_matrix)

from biom import Table

from . import tables as T

ID = 'C16'
RULE = ('worlds of 2-3 tables over one content from tables.rand_spec (dims 1..4, five value kinds, metadata kinds, six id '
        'alphabets), each built by a different route {16 constructor input forms incl. caller CSR/CSC with stored zeros and '
        'unsorted indices, stored zeros in sparse rows / coo / lil / dok / row dicts / dict, float32 / int16 inputs, ids given as list / tuple / object array / str array / np.str_ list / pandas Index / Series, metadata categories of some entries in another insertion order, sort_order then inverse, filter keeping everything (ids / predicate), subsample at full depth, '
        '(ids named through one-shot iterables too), transpose twice, copy, column/row access, nnz, and (30%) a CSR/CSC matrix with stored zeros / unsorted indices put in place directly}; in half of the worlds one table differs in exactly one value (also by 1e-9..1e-12 or one ulp; 10% chains x,y,z with steps d,2d) / id / '
        'order of two ids / metadata entry (changed value, category on one side only, category missing, entry {} on one side) / '
        'presence of metadata / type; programs of 3-10 steps over {nnz, row/column '
        'access, iter, t[i,j], plain reads, the writers as read-only accessors (to_tsv with / without header_key, header_value, '
        'metadata_formatter; to_json; to_hdf5; to_dataframe; metadata_to_dataframe) also on tables with metadata on SOME ids only, ==, !=, descriptive_equality in both directions and on one object, copy}; '
        'compared with the model: a deep content snapshot after every accessor, every verdict, every returned nnz, and format/indptr/indices/data of every touched table '
        'after every step; every ordered pair is compared at the end and symmetry is checked on unequal pairs too; equal-content tables must answer min / nonzero / stored count alike before and after the program '
        '(asked of deep copies; not in worlds with injected zeros); in 40% a sort_order/inverse twin is changed in place afterwards (must turn unequal, '
        'original untouched); for equal-content pairs to_tsv text, json.loads(to_json) and the raw h5py dump of to_hdf5; '
        'non-trivial = at least two tables with different initial (format, sortedness, stored zeros) or a one-difference '
        'pair, and at least one comparison preceded by a representation-changing accessor; distinct by case hash')
TRUSTED = ['hand-written model coq/Model/Equality.v tied to biom/table.py and to scipy (tocsr/tocsc/eliminate_zeros/'
           'sum_duplicates, compared array for array) by this correspondence run',
           'scipy element-wise != of two CSR matrices is modelled by its denotation (dense comparison)',
           'extraction (ExtrOcamlBasic only) + ocaml/driver_tail.ml, cross-checked against vm_compute on a sample']
from . import regen_eq as _regen_eq
# py2v_eq: regenerate coq/Gen/EqualityGen.v (__eq__, __ne__, descriptive_equality, _data_equality) from the source first
regenerate = _regen_eq.hook(TRUSTED, ['equality'], 'coq/Model/Equality.v', 'coq/Proofs/GenBridgeEqualityProofs.v')
ASSUMPTIONS = ['NaN-free values (property domain); metadata values never differ only by 1 / 1.0 / True',
               'sparse inputs carry no duplicate (row, column) entries (scipy sums them before a table exists)',
               'the byte-level half of "export the same" is decided by this run, the content-level half by export_factors']

CTOR_FORMS = ['dense', 'dense_int', 'lists', 'triples', 'dict', 'rowarrays', 'rowdicts', 'sparserows',
              'csr', 'csc', 'coo', 'lil', 'dok', 'bsr', 'csr_zero', 'csr_unsorted', 'csc_zero_unsorted',
              'sparserows_zero', 'coo_zero', 'lil_zero', 'dok_zero', 'rowdicts_zero', 'dict_zero',
              'csr_f32', 'csc_f32', 'coo_i16', 'dense_f32', 'sparserows_f32']
HISTORIES = ['sort_inverse', 'filter_ids', 'filter_once_gen', 'filter_once_iter', 'filter_once_map', 'filter_once_keys', 'filter_pred', 'transpose2', 'copy', 'subsample_full',
             'colaccess', 'rowaccess', 'nnz', 'eq_self']
DESC = {'Tables appear equal': 0, 'Tables are not the same type': 1, 'Observation IDs are not the same': 2,
        'Sample IDs are not the same': 3, 'Observation metadata are not the same': 4,
        'Sample metadata are not the same': 5, 'Data elements are not the same': 6}
ACC = {'nnz': 0, 'density': 0, 'row': 1, 'data_obs': 1, 'col': 2, 'data_samp': 2,
       'iter_obs': 3, 'iterdata_obs': 3, 'iter_samp': 4, 'iterdata_samp': 4, 'dunder_iter': 4,
       'cell': 5, 'value_by_ids': 5, 'matrix_data': 6, 'shape': 6, 'ids': 6, 'metadata': 6,
       # the writers are read-only accessors too
       'to_tsv': 3, 'to_tsv_hdr': 3, 'to_tsv_fmt': 3, 'to_json': 8, 'to_hdf5': 7,
       'to_dataframe': 6, 'md_to_dataframe': 6}
EXPORT_ACC = ['to_tsv', 'to_tsv_hdr', 'to_tsv_fmt', 'to_json', 'to_hdf5', 'to_dataframe', 'md_to_dataframe']
HDR_KEYS = ['g', 'taxonomy', 'k', 'n', 'extra', 'nosuchcategory']


# ---------------------------------------------------------------- building tables through routes
def _raw_compressed(M, fmt, zeros, unsorted):
    """caller-made CSR/CSC arrays with explicitly stored zeros and/or reversed index order"""
    A = M if fmt == 'csr' else M.T
    indptr, indices, data = [0], [], []
    for i in range(A.shape[0]):
        idx = [j for j in range(A.shape[1]) if A[i, j] != 0]
        if zeros:
            idx = sorted(idx + [j for j in range(A.shape[1]) if A[i, j] == 0][:2])
        if unsorted:
            idx = idx[::-1]
        indices += idx
        data += [A[i, j] for j in idx]
        indptr.append(len(indices))
    arrs = (np.array(data, dtype=float), np.array(indices, dtype=np.int32), np.array(indptr, dtype=np.int32))
    return csr_matrix(arrs, shape=M.shape) if fmt == 'csr' else csc_matrix(arrs, shape=M.shape)


def ctor_input(form, M):
    """the matrix M (2-D float array) in one accepted constructor form -> (data, kwargs)"""
    r, c = M.shape
    if form == 'dense':
        return M.copy(), {}
    if form == 'dense_int':
        return (M.astype(int) if np.all(M == np.floor(M)) and np.all(np.abs(M) < 2 ** 53) else M.copy()), {}
    if form == 'lists':
        return [[float(v) for v in row] for row in M.tolist()], {'input_is_dense': True}
    if form == 'triples':
        return [[i, j, float(M[i, j])] for i in range(r) for j in range(c) if M[i, j] != 0], {}
    if form == 'dict':
        return {(i, j): float(M[i, j]) for i in range(r) for j in range(c) if M[i, j] != 0}, {}
    if form == 'rowarrays':
        return [M[i].copy() for i in range(r)], {}
    if form == 'rowdicts':
        return [{(0, j): float(M[i, j]) for j in range(c) if M[i, j] != 0} for i in range(r)], {}
    if form == 'sparserows':
        return [csr_matrix(M[i:i + 1]) for i in range(r)], {}
    if form == 'csr':
        return csr_matrix(M), {}
    if form == 'csc':
        return csc_matrix(M), {}
    if form == 'coo':
        return coo_matrix(M), {}
    if form == 'lil':
        return lil_matrix(M), {}
    if form == 'dok':
        return dok_matrix(M), {}
    if form == 'bsr':
        return bsr_matrix(M), {}
    if form in ('sparserows_zero', 'coo_zero', 'lil_zero', 'dok_zero', 'rowdicts_zero', 'dict_zero'):
        # the same forms carrying explicitly stored zeros (up to two per row)
        z = _raw_compressed(M, 'csr', True, False)
        if form == 'sparserows_zero':
            return [z[i] for i in range(r)], {}
        if form == 'coo_zero':
            return z.tocoo(), {}
        cells = [(i, int(j), float(v)) for i in range(r)
                 for j, v in zip(z.indices[z.indptr[i]:z.indptr[i + 1]], z.data[z.indptr[i]:z.indptr[i + 1]])]
        if form == 'dict_zero':
            return {(i, j): v for i, j, v in cells}, {}
        if form == 'rowdicts_zero':
            return [{(0, j): v for i2, j, v in cells if i2 == i} for i in range(r)], {}
        m = lil_matrix(M) if form == 'lil_zero' else dok_matrix(M)
        for i, j, v in cells:
            if v == 0:
                if form == 'lil_zero':
                    k = sum(1 for x in m.rows[i] if x < j)
                    m.rows[i].insert(k, j)
                    m.data[i].insert(k, 0.0)
                else:
                    dict.__setitem__(m._dict if hasattr(m, '_dict') else m, (i, j), 0.0)
        return m, {}
    if form in ('csr_f32', 'csc_f32', 'coo_i16', 'dense_f32', 'sparserows_f32'):
        # narrower dtypes, where they hold the values exactly (else the float64 form)
        dt = np.dtype('int16' if form == 'coo_i16' else 'float32')
        with np.errstate(over='ignore', invalid='ignore'):
            N = M.astype(dt) if np.all(np.abs(M) < 3e4) and np.array_equal(M.astype(dt).astype(float), M) else M
        if form == 'dense_f32':
            return N.copy(), {}
        if form == 'sparserows_f32':
            return [csr_matrix(N[i:i + 1]) for i in range(r)], {}
        return {'csr_f32': csr_matrix, 'csc_f32': csc_matrix, 'coo_i16': coo_matrix}[form](N), {}
    if form == 'csr_zero':
        return _raw_compressed(M, 'csr', True, False), {}
    if form == 'csr_unsorted':
        return _raw_compressed(M, 'csr', False, True), {}
    if form == 'csc_zero_unsorted':
        return _raw_compressed(M, 'csc', True, True), {}
    raise ValueError(form)


IDFORMS = ['list', 'tuple', 'object_array', 'str_array', 'np_str_list', 'pd_index', 'pd_series']


def ids_as(ids, idform):
    """the same id texts in another container: equality must not depend on it"""
    ids = list(ids)
    if idform == 'tuple':
        return tuple(ids)
    if idform == 'object_array':
        return np.array(ids, dtype=object)
    if idform == 'str_array':
        return np.array(ids)
    if idform == 'np_str_list':
        return [np.str_(i) for i in ids]
    if idform in ('pd_index', 'pd_series'):
        import pandas as pd
        return pd.Index(ids) if idform == 'pd_index' else pd.Series(ids)
    return ids


def md_reorder(md, mdrev):
    """the same metadata, the categories of some entries inserted in the opposite order"""
    md = T._cp(md)
    if md is None or not mdrev:
        return md
    return [dict(reversed(list(m.items()))) if m and i % 2 == mdrev % 2 else m for i, m in enumerate(md)]


def _mk(spec, form, oids=None, sids=None, M=None, omd=None, smd=None, opts=None):
    opts = opts or {}
    M = np.array(spec['mat'], dtype=float).reshape(len(spec['oids']), len(spec['sids'])) if M is None else M
    data, kw = ctor_input(form, M)
    idform = opts.get('idform', 'list')
    return Table(data, ids_as(spec['oids'] if oids is None else oids, idform),
                 ids_as(spec['sids'] if sids is None else sids, idform),
                 md_reorder(spec['omd'] if omd is None else omd, opts.get('mdrev')),
                 md_reorder(spec['smd'] if smd is None else smd, opts.get('mdrev')),
                 type=spec['type'], **kw)


def one_shot(ids, how):
    """every id, through an iterable that can be read once only"""
    ids = list(ids)
    if how == 'gen':
        return (i for i in ids)
    if how == 'iter':
        return iter(ids)
    if how == 'map':
        return map(str, ids)
    return iter(dict.fromkeys(ids))


def build_route(spec, route, opts=None):
    """route = [constructor form, history step, ...]; the result has the spec's content"""
    form, steps = route[0], route[1:]
    M = np.array(spec['mat'], dtype=float).reshape(len(spec['oids']), len(spec['sids']))
    first = steps[0] if steps else None
    if isinstance(first, list) and first[0] == 'sort_inverse':
        po, ps = first[1], first[2]
        oids = [spec['oids'][i] for i in po]
        sids = [spec['sids'][j] for j in ps]
        omd = None if spec['omd'] is None else [spec['omd'][i] for i in po]
        smd = None if spec['smd'] is None else [spec['smd'][j] for j in ps]
        t = _mk(spec, form, oids, sids, M[po, :][:, ps], omd, smd, opts)
        t = t.sort_order(spec['oids'], axis='observation').sort_order(spec['sids'], axis='sample')
        steps = steps[1:]
    else:
        t = _mk(spec, form, opts=opts)
    for s in steps:
        if s == 'filter_ids':
            t = t.filter(list(t.ids(axis='observation')), axis='observation', inplace=False)
            t = t.filter(set(t.ids()), axis='sample', inplace=False)
        elif isinstance(s, str) and s.startswith('filter_once_'):
            # keep everything, the ids named through a one-shot iterable (read once by the library)
            how = s[len('filter_once_'):]
            t = t.filter(one_shot(t.ids(axis='observation'), how), axis='observation', inplace=False)
            t.filter(one_shot(t.ids(), how), axis='sample', inplace=True)
            t = t.filter(one_shot([], how), axis='sample', invert=True, inplace=False)
        elif s == 'filter_pred':
            t = t.filter(lambda v, i, m: True, axis='sample', inplace=False)
            t.filter(lambda v, i, m: False, axis='observation', invert=True, inplace=True)
        elif s == 'transpose2':
            ty = t.type
            t = t.transpose().transpose()
            t.type = ty
        elif s == 'copy':
            t = t.copy()
        elif s == 'subsample_full':
            tot = t.sum(axis='sample')
            t = t.subsample(int(tot[0]), axis='sample', seed=7)
        elif s == 'colaccess':
            t.data(t.ids()[0], axis='sample')
        elif s == 'rowaccess':
            t.data(t.ids(axis='observation')[0], axis='observation')
        elif s == 'nnz':
            t.nnz
        elif s == 'eq_self':
            t == t
        elif isinstance(s, list) and s[0] == 'inject':
            # a representation with explicitly stored zeros / unsorted indices in either format.
            # Since the repairs no public operation leaves stored zeros behind (constructor,
            # subsample and transform eliminate them), so they are put in place directly: the
            # theorems quantify over them and the old defect stays detectable.
            t._data = _raw_compressed(M, s[1], bool(s[2]), bool(s[3]))
        else:
            raise ValueError(s)
    return t


def mutate(spec, mut):
    """a content differing from spec in exactly one place"""
    s = copy.deepcopy(spec)
    k = mut[0]
    if k == 'value':
        _, i, j, v = mut
        s['mat'][i][j] = v
    elif k == 'oid':
        s['oids'][mut[1]] = mut[2]
    elif k == 'sid':
        s['sids'][mut[1]] = mut[2]
    elif k in ('oorder', 'sorder'):
        # the same id -> vector, id -> metadata assignment in another order
        _, i, j = mut
        if k == 'oorder':
            for key in ('oids', 'mat', 'omd'):
                if s[key] is not None:
                    s[key][i], s[key][j] = s[key][j], s[key][i]
        else:
            s['sids'][i], s['sids'][j] = s['sids'][j], s['sids'][i]
            for row in s['mat']:
                row[i], row[j] = row[j], row[i]
            if s['smd'] is not None:
                s['smd'][i], s['smd'][j] = s['smd'][j], s['smd'][i]
    elif k == 'omd':
        s['omd'] = mut[1]
    elif k == 'smd':
        s['smd'] = mut[1]
    elif k == 'type':
        s['type'] = mut[1]
    else:
        raise ValueError(k)
    return s


def table_spec(c, k):
    e = c['tables'][k]
    return mutate(c['spec'], e['mut']) if e.get('mut') else c['spec']


def build_world(c):
    return [build_route(table_spec(c, k), c['tables'][k]['route'], c['tables'][k].get('opts')) for k in range(len(c['tables']))]


# ---------------------------------------------------------------- observing the real tables
def layout(t):
    d = t.matrix_data
    return [{'csr': 0, 'csc': 1}.get(d.format, 9), [len(d.indptr) - 1, d.shape[1] if d.format == 'csr' else d.shape[0],
            [int(x) for x in d.indptr], [int(x) for x in d.indices], [float(x) for x in d.data]]]


class VCoder(T.Coder):
    """Matrix values as opaque codes: the C16 model never computes with values, it only compares
    them and tests them for zero, so any injective coding with 0.0 <-> 0 will do.  This lets values
    that differ by one unit in the last place, or by 1e-12, take part."""

    def __init__(self, universe, values):
        T.Coder.__init__(self, universe)
        self.vals = sorted({float(v) for v in values if v != 0})
        self.vcode = {v: i + 1 for i, v in enumerate(self.vals)}

    def val(self, v):
        v = float(v)
        if v == 0:
            return 0
        if v not in self.vcode:
            self.vcode[v] = len(self.vcode) + 1
            self.vals.append(v)
        return self.vcode[v]

    def unval(self, k):
        return 0.0 if k == 0 else self.vals[k - 1] if k - 1 < len(self.vals) else float('nan')


def layout_tag(t):
    return T.layout_info(t)


def dense_of_arrays(t):
    d = t.matrix_data
    out = np.zeros(d.shape)
    maj = len(d.indptr) - 1
    for i in range(maj):
        seen = set()
        for p in range(d.indptr[i], d.indptr[i + 1]):
            j = int(d.indices[p])
            if j in seen:
                return None
            seen.add(j)
            if d.format == 'csr':
                out[i, j] = d.data[p]
            else:
                out[j, i] = d.data[p]
    return out


def is_coherent(t, spec):
    """the arrays the object holds denote the declared content (plain numpy reference)"""
    want = np.array(spec['mat'], dtype=float).reshape(len(spec['oids']), len(spec['sids']))
    got = dense_of_arrays(t)
    if got is None or got.shape != want.shape or not np.array_equal(got, want):
        return False
    snap = T.norm_snap(T.snapshot(t))
    return snap == T.norm_snap(T.spec_content(spec)) and str(t.matrix_data.dtype) == 'float64'


def do_access(t, a):
    name = a[0]
    if name == 'nnz':
        return int(t.nnz)
    if name == 'density':
        t.get_table_density()
        return int(t.matrix_data.nnz)
    if name == 'row':
        t[a[1], :]
    elif name == 'col':
        t[:, a[2]]
    elif name == 'data_obs':
        t.data(t.ids(axis='observation')[a[1]], axis='observation', dense=bool(a[3] % 2))
    elif name == 'data_samp':
        t.data(t.ids()[a[2]], axis='sample', dense=bool(a[3] % 2))
    elif name == 'iter_obs':
        list(t.iter(axis='observation', dense=bool(a[3] % 2)))
    elif name == 'iterdata_obs':
        list(t.iter_data(axis='observation', dense=bool(a[3] % 2)))
    elif name == 'iter_samp':
        list(t.iter(dense=bool(a[3] % 2)))
    elif name == 'iterdata_samp':
        list(t.iter_data(dense=bool(a[3] % 2)))
    elif name == 'dunder_iter':
        list(t)
    elif name == 'cell':
        t[a[1], a[2]]
    elif name == 'value_by_ids':
        t.get_value_by_ids(t.ids(axis='observation')[a[1]], t.ids()[a[2]])
    elif name == 'matrix_data':
        t.matrix_data
    elif name == 'shape':
        t.shape, t.dtype, t.is_empty()
    elif name == 'ids':
        t.ids(), t.ids(axis='observation')
    elif name == 'metadata':
        t.metadata(), t.metadata(axis='observation')
    elif name == 'to_tsv':
        t.to_tsv()
    elif name == 'to_tsv_hdr':
        key = HDR_KEYS[a[3] % len(HDR_KEYS)] if a[1] % 2 else _some_key(t, a[3])
        t.to_tsv(header_key=key, header_value='Consensus Lineage')
    elif name == 'to_tsv_fmt':
        t.to_tsv(header_key=_some_key(t, a[3]), header_value='md', metadata_formatter=lambda x: '; '.join(map(str, x)) if isinstance(x, list) else repr(x))
    elif name == 'to_json':
        t.to_json('c16')
    elif name == 'to_hdf5':
        h5_dump(t)
    elif name == 'to_dataframe':
        t.to_dataframe(dense=bool(a[3] % 2))
    elif name == 'md_to_dataframe':
        for ax in ('observation', 'sample'):
            try:
                t.metadata_to_dataframe(ax)
            except KeyError:
                pass                      # "<axis> does not have metadata"
    else:
        raise ValueError(name)
    return -1


def _some_key(t, k):
    """a metadata category that some observation has (and, with partial metadata, some lacks)"""
    md = t.metadata(axis='observation')
    keys = sorted({str(x) for m in (md or ()) for x in m})
    return keys[k % len(keys)] if keys else HDR_KEYS[k % len(HDR_KEYS)]


def hdf5_writable(spec):
    """to_hdf5 wants one category set per axis"""
    for md in (spec.get('omd'), spec.get('smd')):
        if md and any(m is not None and m for m in md):
            if len({tuple(sorted(m or {})) for m in md}) != 1:
                return False
    return True


# ---------------------------------------------------------------- exports
def h5_dump(t):
    """raw h5py view of what to_hdf5 wrote: attributes, ids, both matrices decoded, metadata"""
    fd, path = tempfile.mkstemp(suffix='.biom', prefix='biomv-c16-')
    os.close(fd)
    try:
        with h5py.File(path, 'w') as f:
            t.to_hdf5(f, 'c16', creation_date=datetime.datetime(2020, 1, 1))
        out = {}
        with h5py.File(path, 'r') as f:
            out['attrs'] = {k: T.plain(_h5v(f.attrs[k])) for k in f.attrs if k not in ('creation-date',)}
            shape = [int(x) for x in f.attrs['shape']]
            for ax, (maj, mn) in (('observation', shape), ('sample', shape[::-1])):
                g = f[ax]
                out[ax + '/ids'] = [_h5v(x) for x in g['ids'][:]]
                ip, ix, dv = g['matrix/indptr'][:], g['matrix/indices'][:], g['matrix/data'][:]
                dense = np.zeros((maj, mn))
                for i in range(len(ip) - 1):
                    for p in range(ip[i], ip[i + 1]):
                        dense[i, ix[p]] += dv[p]
                out[ax + '/dense'] = dense.tolist()
                md = {}

                def visit(name, obj, md=md):
                    if isinstance(obj, h5py.Dataset):
                        md[name] = T.plain(_h5v(obj[()]))
                g['metadata'].visititems(visit)
                out[ax + '/metadata'] = md
                gm = {}
                g['group-metadata'].visititems(lambda n, o, gm=gm: gm.__setitem__(n, 1))
                out[ax + '/group-metadata'] = gm
        return out
    finally:
        os.unlink(path)


def _h5v(x):
    if isinstance(x, bytes):
        return x.decode('utf-8')
    if isinstance(x, np.ndarray):
        return [_h5v(v) for v in x.tolist()]
    if isinstance(x, (list, tuple)):
        return [_h5v(v) for v in x]
    if isinstance(x, np.generic):
        return _h5v(x.item())
    return x


def stored_queries(t):
    """what the queries that look at STORED entries answer (asked of a deep copy, which keeps the very
    arrays; Table.copy would clean them): min per axis and overall, nonzero(), stored-entry count"""
    t = copy.deepcopy(t)
    stored = int(t.matrix_data.nnz)
    nz = sorted([str(o), str(s)] for o, s in t.nonzero())

    def mn(ax):
        try:
            return [float(x) for x in np.atleast_1d(t.min(ax))]
        except ValueError:
            return 'no-entry'
    return [stored, nz, mn('observation'), mn('sample'), mn('whole')]


def injected(c):
    return any(isinstance(s, list) and s[0] == 'inject' for t in c['tables'] for s in t['route'])


def poke(w, specs, pk):
    """after the program: derive a twin of table i by sort_order and back, then change the twin IN PLACE;
    equality must turn False in both directions and table i must be unchanged"""
    i, axis, idx = pk['i'], pk['axis'], pk['idx']
    t = w[i]
    ids = list(t.ids(axis=axis))
    twin = t.sort_order(ids[::-1], axis=axis).sort_order(ids, axis=axis)
    before = T.norm_snap(T.snapshot(t))
    eq0 = int(bool(t == twin) and bool(twin == t))
    if pk['how'] == 'add_metadata':
        twin.add_metadata({ids[idx % len(ids)]: {'zz_poked': 'x'}}, axis=axis)
    else:
        md = twin.metadata(axis=axis)
        if md is None:
            twin.add_metadata({ids[idx % len(ids)]: {'zz_poked': 'x'}}, axis=axis)
        else:
            keys = sorted({k for m in md for k in m})
            twin.del_metadata(keys=keys[:1], axis=axis)
    return ['poke', eq0, int(bool(t == twin)), int(bool(twin == t)), int(T.norm_snap(T.snapshot(t)) == before)]


def exports(t, with_hdf5=True):
    j = json.loads(t.to_json('c16'))
    j.pop('date', None)
    md = t.metadata(axis='observation')
    keys = sorted({str(x) for m in (md or ()) for x in m})
    tsv = [t.to_tsv()] + [t.to_tsv(header_key=k, header_value='md') for k in keys]
    h5 = None
    if with_hdf5:
        try:
            h5 = h5_dump(t)
        except Exception as e:
            h5 = ['refused', type(e).__name__, str(e)[:80]]
    return {'tsv': tsv, 'json': j, 'hdf5': h5}


# ---------------------------------------------------------------- the implementation run
def run_impl(c):
    try:
        return _run_impl(c)
    except Exception as e:  # pragma: no cover
        return ['crash', type(e).__name__, str(e)[:200]]


def _run_impl(c):
    w = build_world(c)
    specs = [table_spec(c, k) for k in range(len(w))]
    coh = [int(is_coherent(t, s)) for t, s in zip(w, specs)]
    pre = None if injected(c) else [stored_queries(t) for t in w]
    trace = []
    for o in c['prog']:
        k = o[0]
        if k == 'acc':
            i = o[1]
            v = do_access(w[i], o[2])
            trace.append([v, layout(w[i]), int(is_coherent(w[i], specs[i]))])
        elif k == 'cmp':
            _, i, j, how = o
            if how == 'eq':
                v = int(bool(w[i] == w[j]))
            elif how == 'ne':
                v = int(bool(w[i] != w[j]))
            else:
                v = DESC.get(w[i].descriptive_equality(w[j]), 99)
            trace.append([v, layout(w[i]), layout(w[j])])
        elif k == 'copy':
            i = o[1]
            n = w[i].copy()
            w.append(n)
            specs.append(specs[i])
            trace.append([int(is_coherent(n, specs[i])), layout(n), layout(w[i])])
    n0 = len(c['tables'])
    contents = [T.norm_snap(T.spec_content(s)) for s in specs[:n0]]
    pairs = [[int(contents[i] == contents[j]) for j in range(n0)] for i in range(n0)]
    out = ['ok', coh, trace, pairs]
    # equal tables answer the stored-entry queries alike, before any accessor ran and after the program
    # (not asked where the harness itself put stored zeros in place)
    post = None if injected(c) else [stored_queries(t) for t in w[:n0]]
    out.append([] if pre is None else
               [[i, j, int(pre[i] == pre[j]), int(post[i] == post[j])] for i in range(n0) for j in range(i + 1, n0) if pairs[i][j]])
    out.append(poke(w, specs, c['poke']) if c.get('poke') else [])
    if c.get('exports'):
        need = {i for i in range(n0) for j in range(n0) if i != j and pairs[i][j]}
        ex = [exports(w[i], hdf5_writable(specs[i])) if i in need else None for i in range(n0)]
        out.append([[i, j] + [int(ex[i][k] == ex[j][k]) for k in ('tsv', 'json', 'hdf5')]
                    for i in range(n0) for j in range(i + 1, n0) if pairs[i][j]])
    return out


# ---------------------------------------------------------------- wire
def _coder(c):
    specs = [table_spec(c, k) for k in range(len(c['tables']))]
    return VCoder(T.spec_universe(*specs), [v for sp in specs for row in sp['mat'] for v in row]), specs


def encode(c):
    cd, specs = _coder(c)
    w = build_world(c)
    states = []
    for t, s in zip(w, specs):
        lay = layout(t)
        lay[1][4] = [cd.val(v) for v in lay[1][4]]
        dt = 0 if str(t.matrix_data.dtype) == 'float64' else 1
        states.append([cd.table(T.spec_content(s)), lay[0], lay[1], dt])
    ops = []
    for o in c['prog']:
        if o[0] == 'acc':
            ops.append([0, o[1], ACC[o[2][0]]])
        elif o[0] == 'cmp':
            ops.append([1, o[1], o[2], {'eq': 0, 'ne': 1, 'desc': 2}[o[3]]])
        else:
            ops.append([2, o[1]])
    return [states, ops]


def decode(tree, c):
    coh, trace, pairs = tree
    cd, _ = _coder(c)
    def rep(x):
        return [x[0], x[1][:4] + [[cd.unval(k) for k in x[1][4]]]]
    tr = []
    for o, op in zip(trace, c['prog']):
        if op[0] == 'acc':
            tr.append([o[0], rep(o[1]), o[2]])
        else:
            tr.append([o[0], rep(o[1]), rep(o[2])])
    out = ['ok', coh, tr, pairs]
    n0 = len(c['tables'])
    out.append([] if injected(c) else [[i, j, 1, 1] for i in range(n0) for j in range(i + 1, n0) if pairs[i][j]])
    out.append(['poke', 1, 0, 0, 1] if c.get('poke') else [])
    if c.get('exports'):
        out.append([[i, j, 1, 1, 1] for i in range(n0) for j in range(i + 1, n0) if pairs[i][j]])
    return out


# ---------------------------------------------------------------- generation
def counts_spec(rng):
    """non-negative integer counts, every sample with the same total, no empty vector"""
    spec = T.rand_spec(rng, min_r=2, max_r=4, min_c=1, max_c=4, values='counts', density=1.0, layout=False)
    r, c = len(spec['oids']), len(spec['sids'])
    n = rng.randint(r, 9)
    cols = []
    for _ in range(c):
        col = [0] * r
        for _ in range(n):
            col[rng.randrange(r)] += 1
        cols.append(col)
    for i in range(r):                      # no all-zero observation: move one count in column 0.. keeps totals
        if not any(cols[j][i] for j in range(c)):
            j = rng.randrange(c)
            k = max(range(r), key=lambda x: cols[j][x])
            if cols[j][k] > 1:
                cols[j][k] -= 1
                cols[j][i] += 1
    ok = all(any(cols[j][i] for j in range(c)) for i in range(r))
    spec['mat'] = [[float(cols[j][i]) for j in range(c)] for i in range(r)]
    return spec, ok


def rand_route(rng, spec, allow_subsample):
    r, c = len(spec['oids']), len(spec['sids'])
    route = [rng.choice(CTOR_FORMS)]
    n = rng.choice([0, 0, 1, 1, 2])
    for k in range(n):
        s = rng.choice(HISTORIES)
        if s == 'sort_inverse':
            if k != 0:
                continue
            po, ps = list(range(r)), list(range(c))
            rng.shuffle(po)
            rng.shuffle(ps)
            route.append(['sort_inverse', po, ps])
        elif s == 'subsample_full':
            if allow_subsample:
                route.append(s)
        else:
            route.append(s)
    if rng.random() < 0.3:
        route.append(['inject', rng.choice(['csr', 'csc']), rng.randint(0, 1), rng.randint(0, 1)])
    return route


def rand_mut(rng, spec):
    r, c = len(spec['oids']), len(spec['sids'])
    kinds = ['value', 'value', 'oid', 'sid', 'type', 'omd', 'smd']
    if r > 1:
        kinds.append('oorder')
    if c > 1:
        kinds.append('sorder')
    k = rng.choice(kinds)
    if k == 'value':
        i, j = rng.randrange(r), rng.randrange(c)
        old = spec['mat'][i][j]
        cands = [0.0, 1.0, old + 1.0, -old, old + 1.0 / 64,
                 # tiny differences: absolute 1e-9 .. 1e-12, and one unit in the last place
                 old + 1e-9, old - 3e-10, old + 1e-12, float(np.nextafter(old, np.inf)), float(np.nextafter(old, -np.inf)),
                 old * (1 + 2.0 ** -40)]
        new = rng.choice([v for v in cands if v != old])
        return ['value', i, j, new]
    if k in ('oid', 'sid'):
        ids = spec['oids'] if k == 'oid' else spec['sids']
        i = rng.randrange(len(ids))
        new = ids[i] + rng.choice(['x', ' ', '_2'])
        if new in ids:
            new = new + '#'
        return [k, i, new]
    if k == 'oorder':
        i, j = rng.sample(range(r), 2)
        return ['oorder', i, j]
    if k == 'sorder':
        i, j = rng.sample(range(c), 2)
        return ['sorder', i, j]
    if k == 'type':
        return ['type', rng.choice([x for x in T.TYPES if x != spec['type']])]
    ax, n = ('omd', r) if k == 'omd' else ('smd', c)
    md = copy.deepcopy(spec[ax])
    if md is None:
        # metadata present on one side only; sometimes on a single id (the other entries stay {})
        if rng.random() < 0.5:
            md = [{'extra': 'v%d' % rng.randint(0, 1)} for _ in range(n)]
        else:
            md = [{} for _ in range(n)]
            md[rng.randrange(n)] = {'extra': 'v'}
        return [ax, md, 'presence']
    i = rng.randrange(n)
    how = rng.choice(['value', 'value', 'extra_key', 'extra_key', 'del_key', 'empty_entry'])
    md[i] = dict(md[i] or {})
    if how == 'value' or not md[i]:
        key = rng.choice(sorted(md[i])) if md[i] else 'extra'
        old = md[i].get(key)
        md[i][key] = (old + ['x__changed']) if isinstance(old, list) else 'changed-%s' % (old,)
    elif how == 'extra_key':
        # one more category on one id only: the key SETS differ, every shared category agrees
        md[i]['zz_extra'] = rng.choice(['gut', 7, ['a', 'b']])
    elif how == 'del_key':
        md[i].pop(rng.choice(sorted(md[i])))
    else:
        md[i] = {}
    if not any(md):
        return [ax, None, 'presence']   # all-empty metadata IS no metadata: still one difference
    return [ax, md, how if md[i] or how == 'empty_entry' else 'value']


def rand_prog(rng, n_tables, r, c, length, h5ok=()):
    prog = []
    n = n_tables
    h5ok = list(h5ok) or [True] * n
    for _ in range(length):
        x = rng.random()
        if x < 0.5:
            k = rng.randrange(n)
            name = rng.choice(EXPORT_ACC) if rng.random() < 0.4 else rng.choice(sorted(ACC))
            if name == 'to_hdf5' and not h5ok[k]:
                name = 'to_tsv_hdr'
            prog.append(['acc', k, [name, rng.randrange(r), rng.randrange(c), rng.randrange(4)]])
        elif x < 0.92:
            i = rng.randrange(n)
            j = rng.randrange(n)
            prog.append(['cmp', i, j, rng.choice(['eq', 'eq', 'ne', 'desc'])])
        elif n < 5:
            k = rng.randrange(n)
            prog.append(['copy', k])
            h5ok.append(h5ok[k])
            n += 1
    return prog


TINY = [1e-9, 2e-9, 3e-9, 9e-9, 16e-9, 1e-12, 0.1, 0.30000000000000004, 1.0, 1e9 + 0.5, 2.5e-7]


def gen_case(rng):
    x = rng.random()
    if x < 0.25:
        spec, ok = counts_spec(rng)
    elif x < 0.45:
        # metadata on SOME ids only (what add_metadata on a subset leaves behind)
        spec, ok = T.rand_spec(rng, layout=False, md='partial'), False
    else:
        spec, ok = T.rand_spec(rng, layout=False), False
    if rng.random() < 0.15:
        # relative abundances and other values that are not multiples of 1/64
        spec['mat'] = [[rng.choice(TINY) if v else 0.0 for v in row] for row in spec['mat']]
        if not any(v for row in spec['mat'] for v in row):
            spec['mat'][0][0] = 2e-9
        ok = False
    spec['layout'] = []
    r, c = len(spec['oids']), len(spec['sids'])
    n = rng.choice([2, 2, 3])
    tabs = [{'route': rand_route(rng, spec, ok), 'mut': None} for _ in range(n)]
    if ok and rng.random() < 0.6:
        k = rng.randrange(n)
        tabs[k]['route'] = tabs[k]['route'][:1] + ['subsample_full'] + \
            [s for s in tabs[k]['route'][1:] if not (isinstance(s, list) and s[0] == 'sort_inverse')]
    y = rng.random()
    if y < 0.1:
        # a chain x, y, z with small pairwise steps in one cell (transitivity)
        i, j = rng.randrange(r), rng.randrange(c)
        v = spec['mat'][i][j]
        d = rng.choice([7e-9, 1e-9, 4e-10, abs(v) * 2.0 ** -50 if v else 1e-300])
        tabs = [{'route': rand_route(rng, spec, False), 'mut': None},
                {'route': rand_route(rng, spec, False), 'mut': ['value', i, j, v + d]},
                {'route': rand_route(rng, spec, False), 'mut': ['value', i, j, v + 2 * d]}]
        tabs = [t for t in tabs if t['mut'] is None or t['mut'][3] != v]
        n = len(tabs)
    elif y < 0.55:
        k = rng.randrange(n)
        tabs[k] = {'route': rand_route(rng, spec, False), 'mut': rand_mut(rng, spec)}
        if rng.random() < 0.3:
            # a second table that differs from the first in ANOTHER respect: the pair then differs in two respects at once
            # (which of the two descriptive_equality reports is decided by the order of its tests)
            k2 = rng.choice([x for x in range(n) if x != k])
            for _ in range(8):
                m2 = rand_mut(rng, spec)
                if m2[0] != tabs[k]['mut'][0]:
                    tabs[k2] = {'route': rand_route(rng, spec, False), 'mut': m2}
                    break
    for t in tabs:
        # the ids in another container, the metadata categories of some entries in another insertion order
        t['opts'] = {'idform': rng.choice(IDFORMS) if rng.random() < 0.5 else 'list', 'mdrev': rng.choice([0, 0, 1, 2])}
    h5ok = [hdf5_writable(mutate(spec, t['mut']) if t['mut'] else spec) for t in tabs]
    prog = rand_prog(rng, n, r, c, rng.randint(3, 10), h5ok)
    # every world ends with all comparisons in both directions
    for i in range(n):
        for j in range(n):
            prog.append(['cmp', i, j, rng.choice(['eq', 'ne', 'desc'])])
    pk = None
    if rng.random() < 0.4:
        pk = {'i': rng.randrange(n), 'axis': rng.choice(['sample', 'observation']), 'idx': rng.randrange(4),
              'how': rng.choice(['add_metadata', 'del_metadata'])}
    return {'spec': spec, 'tables': tabs, 'prog': prog, 'exports': rng.random() < 0.5, 'poke': pk}


def gen(rng, tier):
    n = 1200 if tier == 'quick' else 12000
    for _ in range(n):
        yield gen_case(rng)


# ---------------------------------------------------------------- oracle (the property text, plain python)
def oracle(c, obs):
    if obs[0] != 'ok':
        return ['implementation crashed: %s' % (obs,)]
    fails = []
    coh, trace, pairs = obs[1], obs[2], obs[3]
    n0 = len(c['tables'])
    same = [[c['tables'][i].get('mut') is None and c['tables'][j].get('mut') is None or i == j
             for j in range(n0)] for i in range(n0)]
    origin = list(range(n0))               # which initial table a world slot is a copy of
    for k, t in enumerate(coh):
        if not t:
            fails.append('table %d built by route %s does not hold the content it was built from'
                         % (k, c['tables'][k]['route']))
    for o, ob in zip(c['prog'], trace):
        if o[0] == 'copy':
            origin.append(origin[o[1]])
            if not ob[0]:
                fails.append('copy of table %d does not hold the content of its original' % o[1])
        if o[0] == 'acc' and len(ob) > 2 and not ob[2]:
            fails.append('read-only accessor %s changed table %d: it no longer holds the content it was built from'
                         % (o[2][0], o[1]))
        if o[0] == 'cmp':
            i, j, how = origin[o[1]], origin[o[2]], o[3]
            eq = same[i][j]
            want = {'eq': int(eq), 'ne': int(not eq)}.get(how)
            if how == 'desc':
                ok = (ob[0] == 0) == eq
            else:
                ok = ob[0] == want
            if not ok:
                what = 'equal content built through %s and %s' % (c['tables'][i]['route'], c['tables'][j]['route']) if eq \
                    else 'contents differing in exactly %s' % (c['tables'][i].get('mut') or c['tables'][j].get('mut'),)
                fails.append('%s of tables %d,%d (%s) answered %s' % (how, o[1], o[2], what, ob[0]))
    # symmetry, on equal and on unequal pairs alike: the verdicts of (i, j) and (j, i) seen in the closing block
    last = {}
    for o, ob in zip(c['prog'], trace):
        if o[0] == 'cmp':
            eqv = {'eq': bool(ob[0]), 'ne': not ob[0], 'desc': ob[0] == 0}[o[3]]
            last[(o[1], o[2])] = eqv
    for (i, j), v in sorted(last.items()):
        if i < j and (j, i) in last and last[(j, i)] != v:
            fails.append('equality is not symmetric: tables %d,%d compare %s one way and %s the other'
                         % (i, j, 'equal' if v else 'unequal', 'equal' if last[(j, i)] else 'unequal'))
    slots = sorted({i for i, _ in last} | {j for _, j in last})
    for x in slots:
        for y in slots:
            for z in slots:
                if len({x, y, z}) == 3 and last.get((x, y)) and last.get((y, z)) and last.get((x, z)) is False:
                    fails.append('equality is not transitive: tables %d,%d and %d,%d compare equal, %d,%d do not'
                                 % (x, y, y, z, x, z))
    for i, j, before, after in obs[4]:
        if not before:
            fails.append('freshly built equal tables %d (%s) and %d (%s) answer min / nonzero / stored count differently'
                         % (i, c['tables'][i]['route'], j, c['tables'][j]['route']))
        if not after:
            fails.append('after the program equal tables %d and %d answer min / nonzero / stored count differently' % (i, j))
    if obs[5]:
        _, eq0, e1, e2, same = obs[5]
        if not eq0:
            fails.append('a table and its sort_order/inverse twin do not compare equal')
        if e1 or e2:
            fails.append('after changing the twin in place the tables still compare equal')
        if not same:
            fails.append('changing the twin in place changed the original table')
    if c.get('exports') and len(obs) > 6:
        for i, j, tsv, js, h5 in obs[6]:
            for name, okk in (('to_tsv', tsv), ('to_json', js), ('to_hdf5', h5)):
                if not okk:
                    fails.append('%s differs between equal tables %d and %d' % (name, i, j))
    return fails[:4]


def nontrivial(c):
    acc_before_cmp = False
    seen_acc = False
    for o in c['prog']:
        if o[0] == 'acc' and ACC[o[2][0]] in (0, 1, 2, 3, 4, 7, 8):
            seen_acc = True
        if o[0] == 'cmp' and seen_acc:
            acc_before_cmp = True
    routes = {json.dumps(t['route']) for t in c['tables']}
    return acc_before_cmp and (len(routes) > 1 or any(t.get('mut') for t in c['tables']))


def classify(c):
    tags = []
    try:
        for t in build_world(c):
            tags.append('repr:' + layout_tag(t))
    except Exception:
        tags.append('repr:unbuildable')
    for t in c['tables']:
        tags.append('form:' + t['route'][0])
        for s in t['route'][1:]:
            tags.append('history:' + (s[0] if isinstance(s, list) else s))
        if t.get('opts'):
            tags.append('ids:' + t['opts']['idform'])
            if t['opts'].get('mdrev'):
                tags.append('md-insertion-order:changed')
        if t.get('mut'):
            tags.append('diff:' + t['mut'][0])
            if t['mut'][0] in ('omd', 'smd') and len(t['mut']) > 2:
                tags.append('mddiff:' + t['mut'][2])
    if not any(t.get('mut') for t in c['tables']):
        tags.append('diff:none')
    for o in c['prog']:
        tags.append('op:' + (o[2][0] if o[0] == 'acc' else o[0] + (':' + o[3] if o[0] == 'cmp' else '')))
    if c.get('exports'):
        tags.append('exports')
    if c.get('poke'):
        tags.append('poke:' + c['poke']['how'])
    return tags


def shrink(c):
    p = c['prog']
    for i in range(len(p)):
        if p[i][0] == 'copy':
            continue
        yield dict(c, prog=p[:i] + p[i + 1:])
    for k, t in enumerate(c['tables']):
        if len(t['route']) > 1:
            tabs = list(c['tables'])
            tabs[k] = dict(t, route=t['route'][:-1])
            yield dict(c, tables=tabs)
        if t['route'][0] != 'dense':
            tabs = list(c['tables'])
            tabs[k] = dict(t, route=['dense'] + t['route'][1:])
            yield dict(c, tables=tabs)
    if c.get('exports'):
        yield dict(c, exports=False)
    if c.get('poke'):
        yield dict(c, poke=None)
    s = c['spec']
    if s.get('omd') or s.get('smd'):
        if not any(t.get('mut') and t['mut'][0] in ('omd', 'smd') for t in c['tables']):
            yield dict(c, spec=dict(s, omd=None, smd=None))


SIGNATURES = {}
