"""C10: concatenation places every operand's block unchanged and pads with zeros.
A case is a list of table specs (first = receiver), an axis and a call form; the real
Table.concat / biom.concat runs on tables built through tables.build (layout recipes), the
model (coq/Model/Concat.v) runs on their content."""
import copy

import numpy as np

import biom
from . import tables as T

ID = 'C10'
RULE = ('k in 1..4 operands with disjoint ids on the concatenation axis (plus a non-disjoint stream that must raise '
        'DisjointIDError), both axes, other-axis ids drawn per operand from a shared pool with the patterns '
        'identical / permuted / partially missing / disjoint / random, 1..4 x 1..5 blocks, values counts/signed/dyadic/big, '
        'some operands emptied on one axis by filter([]) (0 x n, m x 0), metadata on neither/either/both axes per operand (entries may be empty, the same other-axis id may carry '
        'different metadata in different operands), every operand built from a layout recipe; calls: '
        't.concat(list), t.concat(table), t.concat(list) with the default axis, biom.concat(list), the axis as keyword and '
        'positionally for both entry points; a share of all cases (refused ones included) runs inside errstate / seterr '
        'with the duplicate-id kinds ignored or every kind warned/ignored (profile restored afterwards); a quarter of '
        'the cases use falsy-looking ids (0, blank, False, None); '
        'for list operands the call is repeated with the same list object (same receiver, and a second receiver '
        'carrying the block under fresh ids) and the caller\'s list must be left unchanged; '
        'non-trivial = at least two operands or a refused case; distinct by case hash')
TRUSTED = ['hand-written model coq/Model/Concat.v tied to biom/table.py:3516-3676 by this correspondence run',
           'harness.tables.Coder: id codes respect python string order (sorted() = sort by code)',
           'extraction (ExtrOcamlBasic only) + ocaml/driver_tail.ml, cross-checked against vm_compute on a sample']
from . import regen_cat as _regen_cat
# py2v_cat: regenerate coq/Gen/ConcatGen.v (Table.concat) from the source first
regenerate = _regen_cat.hook(TRUSTED, ['concat'], 'coq/Model/Concat.v', 'coq/Proofs/GenBridgeConcatProofs.v',
                             'coq/Gen/CatPrelude.v')
ASSUMPTIONS = ['operands are coherent tables (C05) with 1..N x 1..M shape',
               'metadata None and the empty dict are the same observation of "no metadata for this id"',
               'the order of the other axis in the result is not promised by the property text (the model proves it is sorted)']

AXES = ['observation', 'sample']
CALLS = ['method_list', 'method_single', 'method_default_axis', 'module', 'method_positional', 'module_positional']
# error profiles under which the call is made (None = the default profile); refusal of overlapping ids must not
# depend on them.  'raise'/'print' for every kind are left out: emptied operands would trip the 'empty' kind.
PROFILES = [None, None, None, ['errstate', {'sampdup': 'ignore'}], ['errstate', {'obsdup': 'ignore'}],
            ['errstate', {'sampdup': 'ignore', 'obsdup': 'ignore'}], ['errstate', {'all': 'warn'}],
            ['errstate', {'all': 'ignore'}], ['seterr', {'all': 'warn'}], ['seterr', {'obsdup': 'warn', 'sampdup': 'warn'}]]
FALSY_IDS = ['0', ' ', 'False', 'None', '0.0', '[]']        # valid non-empty ids that look falsy ('' is outside C01)
PATTERNS = ['identical', 'permuted', 'missing', 'disjoint', 'random']
_INFO = {}


# ---------------------------------------------------------------- generation
def _mk_md(rng, kind, n):
    if kind == 'none':
        return None
    md = [T.rand_md(rng, rng.choice(['text', 'group', 'num']) if kind == 'mixed' else kind, i) for i in range(n)]
    for i in range(n):
        r = rng.random()
        if r < 0.15:
            md[i] = {}
        elif r < 0.25:
            md[i] = None
    return md


def gen_case(rng, k=None, pattern=None, axis=None, call=None, clash=None):
    k = k or rng.choice([1, 2, 2, 3, 3, 4])
    axis = axis or rng.choice(AXES)
    pattern = pattern or rng.choice(PATTERNS)
    alphabet = rng.choice(['short'] * 5 + ['long', 'punct', 'latin1', 'cjk', 'astral'])
    mk = T.ALPHABETS[alphabet]
    npool = rng.randint(1, 6)
    # numbers chosen so that string order differs from numeric order (o10 < o9)
    nums = rng.sample([1, 2, 3, 9, 10, 11, 20, 100], npool)
    pool = [mk(rng, n, 'p') for n in nums]
    values = rng.choice(['counts', 'counts', 'small', 'signed', 'dyadic', 'big'])
    base = rng.sample(pool, rng.randint(1, min(5, npool)))
    specs = []
    for j in range(k):
        n_ax = rng.randint(1, 4)
        ax_ids = [mk(rng, i, 'a%d' % j) for i in range(n_ax)]
        if pattern == 'identical':
            oth = list(base)
        elif pattern == 'permuted':
            oth = list(base); rng.shuffle(oth)
        elif pattern == 'missing':
            oth = [x for x in base if rng.random() < 0.6] or [rng.choice(base)]
            rng.shuffle(oth)
        elif pattern == 'disjoint':
            oth = [mk(rng, i, 'd%d' % j) for i in range(rng.randint(1, 3))]
        else:
            oth = rng.sample(pool, rng.randint(1, min(5, npool)))
        density = rng.choice([0.0, 0.3, 0.7, 0.7, 1.0])
        blk = [[T.rand_value(rng, values) if rng.random() < density else 0.0 for _ in oth] for _ in ax_ids]
        ax_md = _mk_md(rng, rng.choice(['none', 'none', 'text', 'group', 'mixed']), n_ax)
        oth_md = _mk_md(rng, rng.choice(['none', 'none', 'text', 'group', 'tax']), len(oth))
        if axis == 'observation':
            spec = {'oids': ax_ids, 'sids': oth, 'mat': blk, 'omd': ax_md, 'smd': oth_md}
        else:
            spec = {'oids': oth, 'sids': ax_ids, 'mat': [list(r) for r in zip(*blk)] if oth else [],
                    'omd': oth_md, 'smd': ax_md}
        spec['type'] = rng.choice(T.TYPES)
        spec['layout'] = T.rand_layout(rng, len(spec['oids']), len(spec['sids']))
        specs.append(spec)
    if rng.random() < 0.2:          # operands emptied on one axis by a filter (0 x n or m x 0)
        for spec in specs:
            if rng.random() < 0.5:
                spec['emptied'] = rng.choice(AXES)
    clash = (rng.random() < 0.12 and k >= 2) if clash is None else clash
    if clash and k >= 2:
        i, j = sorted(rng.sample(range(k), 2))
        key = 'oids' if axis == 'observation' else 'sids'
        specs[j][key][rng.randrange(len(specs[j][key]))] = rng.choice(specs[i][key])
        if len(set(specs[j][key])) != len(specs[j][key]):      # keep each operand coherent
            specs[j][key] = list(dict.fromkeys(specs[j][key]))
            n = len(specs[j][key])
            if axis == 'observation':
                specs[j]['mat'] = specs[j]['mat'][:n]
                specs[j]['omd'] = None if specs[j]['omd'] is None else specs[j]['omd'][:n]
            else:
                specs[j]['mat'] = [r[:n] for r in specs[j]['mat']]
                specs[j]['smd'] = None if specs[j]['smd'] is None else specs[j]['smd'][:n]
            specs[j]['layout'] = [specs[j]['layout'][0]]
    if call is None:
        call = rng.choice(CALLS)
    if call == 'method_single' and k != 2:
        call = 'method_list'
    if call == 'method_default_axis' and axis != 'sample':
        call = 'module'
    if rng.random() < 0.25:         # falsy-looking ids on either axis (the same text may be shared on the other axis)
        ren = {}
        for spec in specs:
            for key in ('oids', 'sids'):
                for n, i in enumerate(spec[key]):
                    if i not in ren and rng.random() < 0.3 and len(ren) < len(FALSY_IDS):
                        ren[i] = FALSY_IDS[len(ren)]
        for spec in specs:
            for key in ('oids', 'sids'):
                spec[key] = [ren.get(i, i) for i in spec[key]]
    case = {'specs': specs, 'axis': axis, 'call': call, 'pattern': pattern, 'profile': copy.deepcopy(rng.choice(PROFILES))}
    if call in ('method_list', 'method_default_axis', 'method_positional'):
        case['other'] = other_receiver(specs[0], axis, rng)
    return case


def other_receiver(spec, axis, rng=None):
    """a second receiver for the same list object: the receiver's block under fresh ids on the axis"""
    b = copy.deepcopy(spec)
    key = 'oids' if axis == 'observation' else 'sids'
    b[key] = ['zz' + i for i in b[key]]
    b.pop('emptied', None)
    if rng is not None:
        b['type'] = rng.choice(T.TYPES)
    return b


def gen(rng, tier):
    n = 900 if tier == 'quick' else 9000
    # a systematic sweep first: every k x axis x pattern x call once
    for k in (1, 2, 3, 4):
        for axis in AXES:
            for pattern in PATTERNS:
                yield gen_case(rng, k=k, pattern=pattern, axis=axis, clash=False)
    for axis in AXES:
        for k in (2, 3, 4):
            yield gen_case(rng, k=k, axis=axis, clash=True)
    for _ in range(n):
        yield gen_case(rng)


# ---------------------------------------------------------------- implementation
def build(spec):
    """tables.build, then (optionally) every id of one axis removed by a filter: a 0 x n or m x 0 operand that
    still owns the ids (and metadata) of its other axis"""
    t = T.build(spec)
    if spec.get('emptied'):
        t = t.filter([], axis=spec['emptied'], inplace=False)
    return t


def content(spec):
    c = T.spec_content(spec)
    if spec.get('emptied') == 'observation':
        c['oids'], c['mat'], c['omd'] = [], [], None
    elif spec.get('emptied') == 'sample':
        c['sids'], c['mat'], c['smd'] = [], [[] for _ in c['oids']], None
    return c


def _status(f):
    try:
        return ['ok', T.norm_snap(T.snapshot(f()))]
    except Exception as e:
        return ['err', T.err_code(e)]


def run_impl(case):
    """the call under test; then, for list operands, the same call again with the SAME list object and a
    call with another receiver and that list object; the caller's list must stay what it was"""
    try:
        ts = [build(s) for s in case['specs']]
        other = build(case['other']) if case.get('other') else None
    except Exception as e:
        return ['crash-build', type(e).__name__, str(e)[:200]]
    _INFO[id(case)] = [T.layout_info(t) for t in ts]
    try:
        return _under_profile(case.get('profile'), lambda: _calls(case, ts, other))
    finally:
        _restore_default_profile()


def _restore_default_profile():
    import biom.err as E
    from .c20 import DEFAULT
    prof = getattr(E, '__errprof')
    prof._state.clear()
    prof._state.update(DEFAULT)


def _under_profile(profile, f):
    import biom.err as E
    if not profile:
        return f()
    kind, kw = profile
    if kind == 'errstate':
        with E.errstate(**kw):
            return f()
    old = E.seterr(**kw)
    try:
        return f()
    finally:
        E.seterr(**old)


def _calls(case, ts, other):
    axis, call = case['axis'], case['call']
    if call == 'method_single':
        return [_status(lambda: ts[0].concat(ts[1], axis=axis)), {'repeat': None, 'other': None, 'list_unchanged': True}]
    if call in ('module', 'module_positional'):
        lst = list(ts)
        before = [id(x) for x in lst]
        if call == 'module':
            main = _status(lambda: biom.concat(lst, axis=axis))
            again = _status(lambda: biom.concat(lst, axis=axis))
        else:
            main = _status(lambda: biom.concat(lst, axis))
            again = _status(lambda: biom.concat(lst, axis))
        return [main, {'repeat': again, 'other': None, 'list_unchanged': [id(x) for x in lst] == before}]
    lst = ts[1:]
    before = [id(x) for x in lst]
    if call == 'method_positional':
        do = lambda t: t.concat(lst, axis)
    elif call == 'method_default_axis':
        do = lambda t: t.concat(lst)
    else:
        do = lambda t: t.concat(lst, axis=axis)
    main = _status(lambda: do(ts[0]))
    unchanged = [id(x) for x in lst] == before
    again = _status(lambda: do(ts[0]))
    oth = _status(lambda: do(other)) if other is not None else None
    return [main, {'repeat': again, 'other': oth, 'list_unchanged': unchanged and [id(x) for x in lst] == before}]


# ---------------------------------------------------------------- wire
def _coder(case):
    return T.Coder(T.spec_universe(*(case['specs'] + ([case['other']] if case.get('other') else []))))


def encode(case):
    cd = _coder(case)
    return [AXES.index(case['axis']), [cd.table(T.snapshot(build(s))) for s in case['specs']],
            [cd.table(T.snapshot(build(case['other'])))] if case.get('other') else []]


def _dec(tree, cd):
    if tree[0] == -1:
        return ['err', tree[1]]
    return ['ok', T.norm_snap(cd.untable(tree[1]))]


def decode(tree, case):
    cd = _coder(case)
    main = _dec(tree[0], cd)
    # the model is a function of the operands: repeating the call gives the same result and nothing is modified
    rep = None if case['call'] == 'method_single' else main
    return [main, {'repeat': rep, 'other': _dec(tree[1][0], cd) if tree[1] else None, 'list_unchanged': True}]


# ---------------------------------------------------------------- oracle (the property text)
def oracle(case, obs):
    if isinstance(obs[0], str) and obs[0].startswith('crash'):
        return ['could not build the operands: %s' % obs]
    main, extra = obs
    fails = oracle_one(case['specs'], case['axis'], main)
    if not extra['list_unchanged']:
        fails.append("the caller's list of operands was modified by concat")
    if extra['repeat'] is not None and extra['repeat'] != main:
        fails.append('the same call repeated with the same list object gives a different result: %s' % (extra['repeat'][:1],))
    if extra['other'] is not None:
        fails += ['with another receiver and the same list object: ' + f
                  for f in oracle_one([case['other']] + case['specs'][1:], case['axis'], extra['other'])]
    return fails[:4]


def oracle_one(specs_in, axis, obs):
    fails = []
    case = {'axis': axis}
    specs = [content(s) for s in specs_in]
    ax = 'oids' if case['axis'] == 'observation' else 'sids'
    ot = 'sids' if case['axis'] == 'observation' else 'oids'
    axmd = 'omd' if case['axis'] == 'observation' else 'smd'
    seen, clash = set(), False
    for s in specs:
        if seen & set(s[ax]):
            clash = True
        seen |= set(s[ax])
    if clash:
        if obs != ['err', 3]:
            fails.append('operands share an id on the %s axis but concat was not refused with DisjointIDError: %s'
                         % (case['axis'], obs[:1]))
        return fails
    if obs[0] != 'ok':
        return ['disjoint operands were refused: %s' % obs]
    r = obs[1]
    want_ax = [i for s in specs for i in s[ax]]
    if r[ax] != want_ax:
        fails.append('ids on the concatenated axis are %s, expected the operands\' ids in operand order %s' % (r[ax], want_ax))
    union = set(i for s in specs for i in s[ot])
    if set(r[ot]) != union or len(r[ot]) != len(union):
        fails.append('ids on the other axis are %s, expected the union %s' % (r[ot], sorted(union)))
        return fails
    R = np.array(r['mat'], dtype=float).reshape(len(r['oids']), len(r['sids']))
    if case['axis'] == 'sample':
        R = R.T
    rpos = {i: n for n, i in enumerate(r[ax])}
    opos = {i: n for n, i in enumerate(r[ot])}
    total = 0.0
    for s in specs:
        M = np.array(s['mat'], dtype=float).reshape(len(s['oids']), len(s['sids']))
        if case['axis'] == 'sample':
            M = M.T
        total += M.sum()
        for a, x in enumerate(s[ax]):
            if x not in rpos:
                continue
            for y in r[ot]:
                want = M[a, s[ot].index(y)] if y in s[ot] else 0.0
                got = R[rpos[x], opos[y]]
                if got != want:
                    fails.append('value at (%s, %s) is %r, the owning operand has %r' % (x, y, got, want))
            md_r = r[axmd][rpos[x]] if r[axmd] is not None else None
            md_s = s[axmd][a] if s[axmd] is not None else None
            if (md_r or {}) != (md_s or {}):
                fails.append('metadata of %s is %r, the owning operand has %r' % (x, md_r, md_s))
    if R.sum() != total:
        fails.append('grand total %r differs from the sum of the operands\' totals %r' % (R.sum(), total))
    if r['type'] != specs[0]['type']:
        fails.append('type %r is not the receiver\'s %r' % (r['type'], specs[0]['type']))
    return fails[:4]


def nontrivial(case):
    return len(case['specs']) >= 2


def classify(case):
    tags = ['k:%d' % len(case['specs']), 'axis:' + case['axis'], 'call:' + case['call'], 'pattern:' + case.get('pattern', '?')]
    pr = case.get('profile')
    tags.append('profile:' + ('default' if not pr else pr[0] + ':' + ','.join('%s=%s' % kv for kv in sorted(pr[1].items()))))
    if any(i in FALSY_IDS for s in case['specs'] for i in s['oids'] + s['sids']):
        tags.append('ids:falsy-looking')
    ax = 'oids' if case['axis'] == 'observation' else 'sids'
    ids = [i for s in case['specs'] for i in s[ax]]
    tags.append('stream:refused' if len(set(ids)) != len(ids) else 'stream:disjoint')
    axmd = 'omd' if case['axis'] == 'observation' else 'smd'
    have = [s[axmd] is not None for s in case['specs']]
    tags.append('axis-md:' + ('all' if all(have) else 'some' if any(have) else 'none'))
    for s in case['specs']:
        if s.get('emptied'):
            tags.append('emptied:' + ('axis' if s['emptied'] == case['axis'] else 'other-axis'))
    for li in _INFO.get(id(case), []):
        tags.append('layout:' + li)
    return tags


def shrink(case):
    specs = case['specs']
    if len(specs) > 1:
        for i in range(len(specs)):
            c = copy.deepcopy(case)
            del c['specs'][i]
            if c['call'] == 'method_single' and len(c['specs']) != 2:
                c['call'] = 'method_list'
            if i == 0 and c.get('other'):
                c['other'] = other_receiver(c['specs'][0], c['axis'])
            yield c
    for i, s in enumerate(specs):
        if s['layout'] != ['dense']:
            c = copy.deepcopy(case); c['specs'][i]['layout'] = ['dense']; yield c
        for key in ('omd', 'smd'):
            if s[key] is not None:
                c = copy.deepcopy(case); c['specs'][i][key] = None; yield c
        if s['type'] is not None:
            c = copy.deepcopy(case); c['specs'][i]['type'] = None; yield c
        if len(s['oids']) > 1:
            for r in range(len(s['oids'])):
                c = copy.deepcopy(case); t = c['specs'][i]
                del t['oids'][r]; del t['mat'][r]
                if t['omd'] is not None:
                    del t['omd'][r]
                t['layout'] = ['dense']
                yield c
        if len(s['sids']) > 1:
            for k in range(len(s['sids'])):
                c = copy.deepcopy(case); t = c['specs'][i]
                del t['sids'][k]
                for row in t['mat']:
                    del row[k]
                if t['smd'] is not None:
                    del t['smd'][k]
                t['layout'] = ['dense']
                yield c


SIGNATURES = {}
