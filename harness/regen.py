"""regenerate() hooks: re-translate the parts of the Coq model that tools/py2v generates from the
source tree under test (BIOM_REPO) at the start of a check, and record the run in the evidence.
Usage in a property module, after TRUSTED is defined:
    from . import regen as _regen
    regenerate = _regen.hook(TRUSTED, ['transform'])"""
import os
import re

from . import core


def hook(trusted, targets):
    base = list(trusted)

    def regenerate():
        rc, out = core.sh([os.path.join(core.ROOT, 'tools', 'regen.sh')] + list(targets), timeout=300)
        del trusted[:]
        trusted.extend(base)
        refused = [ln.split('REFUSED', 1)[1].strip() for ln in out.split('\n') if 'REFUSED' in ln]
        for m in re.finditer(r'py2v: (\S+) -> (\S+) (written|unchanged) \(source sha256 ([0-9a-f]+)\)', out):
            trusted.append('%s regenerated from %s by tools/py2v on this run (%s; sha256 of source %s); tied to the '
                           'hand-written model by the *_is_source theorems (coq/Proofs/GenBridge*.v)'
                           % (m.group(2), m.group(1), m.group(3), m.group(4)))
        if rc != 0:
            trusted.append('translator REFUSED a source on this run (%s); the generated file is stale' % '; '.join(refused))
            raise core.Broken('translator rejected %s' % ('; '.join(refused) or 'rc=%d' % rc), out[-3000:])
    return regenerate
