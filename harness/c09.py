"""C09: merge is the pointwise sum over the union / intersection of IDs.
A case is a list of table specs (first = receiver), the two axis modes, the two metadata-merge
functions (names from a finite family, 'default' = argument omitted) and the call form
(single table / list / tuple).  The real Table.merge runs on tables built through tables.build
(every operand has its own layout recipe); the model (coq/Model/Merge.v) runs on their content."""
import copy

import numpy as np

from biom.util import prefer_self

from . import tables as T
from .core import canon

ID = 'C09'
RULE = ('receiver + 0..3 others (single table / list / tuple form), each 1..4 x 1..4, ids per axis drawn from a pool whose '
        'string order differs from creation order, with the overlap patterns identical / permuted / nested / partial / disjoint '
        'chosen per axis and per operand; 4 union/intersection combinations (+ a few unknown modes); metadata on '
        'neither / receiver only / others only / all / random operands, entries possibly missing (None or empty) for single ids, '
        'different values for the same id in different operands; metadata functions default, prefer_self, prefer_other, '
        'self_only, other_only, drop, both, tag (records whether it was handed None / an empty dict / a dict), const and None; '
        'values counts / signed / dyadic, with a stream in which overlapping cells cancel (v + -v); every operand built from a '
        'layout recipe (CSR/CSC/COO/dense/lists, unsorted indices, stored zeros, sort_order histories); a systematic sweep of '
        'modes x metadata profile x pattern and of the list form precedes the random stream; '
        'non-trivial = at least two operands sharing or missing at least one id, or a refused case; distinct by case hash')
TRUSTED = ['hand-written model coq/Model/Merge.v tied to biom/table.py:3397-3418,3704-4038 and biom/util.py:195-197 by this correspondence run',
           'harness.tables.Coder: id codes respect python string order (sorted() = sort by code)',
           'extraction (ExtrOcamlBasic only) + ocaml/driver_tail.ml, cross-checked against vm_compute on a sample']
from . import regen as _regen
_regen_helpers = _regen.hook(TRUSTED, ['helpers', 'util'])   # py2v: regenerate coq/Gen/* from the source first
from . import regen_merge as _regen_merge
# py2v_merge: regenerate coq/Gen/MergeGen.v (Table.merge) from the source as well
_regen_wrap = _regen_merge.hook(TRUSTED, ['merge'], 'coq/Model/Merge.v (merge_dispatch)',
                                'coq/Proofs/GenBridgeMergeWrapProofs.v')


def regenerate():
    """both translators run; each hook resets TRUSTED to its base first, so the lines of the first are kept by hand"""
    err = None
    try:
        _regen_helpers()
    except Exception as e:          # a refusal: still run the other translator, then report
        err = e
    first = [x for x in TRUSTED if 'tools/py2v on this run' in x or 'translator REFUSED' in x]
    try:
        _regen_wrap()
    finally:
        TRUSTED.extend(first)
    if err is not None:
        raise err
ASSUMPTIONS = ['operands are coherent tables (C05) with at least one observation and one sample',
               'metadata None and the empty dict are the same observation of "no metadata for this id"',
               'a metadata-merge function is a deterministic total function of its two arguments returning a dict or None; '
               'the property speaks about functions that do not create metadata out of nothing (f(None, None) is None): for '
               'tag/const the metadata clause is only checked where the general path of a two-table merge runs',
               'a metadata function that is None means "no metadata on that axis" (the fast path needs both to be None)',
               'on the fast path the order of the ids is not promised (both sides are compared sorted by id)']

MODES = ['union', 'intersection', 'bogus']
PATTERNS = ['identical', 'permuted', 'nested', 'partial', 'disjoint']
PROFILES = ['neither', 'self', 'others', 'all', 'random', 'last']
FORMS = ['single', 'list', 'tuple']


def _cls(x):
    return '0' if x is None else ('1' if not x else '2')


MDF = {
    'default': (0, prefer_self),
    'prefer_self': (0, prefer_self),
    'prefer_other': (1, lambda x, y: y if y is not None else x),
    'self_only': (2, lambda x, y: x),
    'other_only': (3, lambda x, y: y),
    'drop': (4, lambda x, y: None),
    'both': (5, lambda x, y: x if (x is not None and y is not None) else None),
    'tag': (6, lambda x, y: {'w': _cls(x) + _cls(y)}),
    'const': (7, lambda x, y: {'c': 'k'}),
    'None': (9, None),
}
CREATES = ('tag', 'const')           # f(None, None) is not None
_INFO = {}


# ---------------------------------------------------------------- generation
def _mk_md(rng, kind, n, salt):
    if kind == 'none':
        return None
    if kind == 'hollow':                       # a list, but nothing in it: the constructor drops it
        return [rng.choice([None, {}]) for _ in range(n)]
    md = [T.rand_md(rng, rng.choice(['group', 'group', 'text']), salt + i) for i in range(n)]
    if kind == 'partial':
        for i in range(n):
            r = rng.random()
            if r < 0.3:
                md[i] = None
            elif r < 0.5:
                md[i] = {}
    return md


def _related(rng, mine, pool, pattern):
    """ids of another operand, related to the receiver's ids as the pattern says"""
    rest = [x for x in pool if x not in mine]
    rng.shuffle(rest)
    if pattern == 'identical':
        return list(mine)
    if pattern == 'permuted':
        out = list(mine)
        rng.shuffle(out)
        if out == mine and len(out) > 1:
            out = out[1:] + out[:1]
        return out
    if pattern == 'nested':
        if rng.random() < 0.5 and len(mine) > 1:
            out = rng.sample(mine, rng.randint(1, len(mine) - 1))
        else:
            out = list(mine) + rest[:rng.randint(1, 2)]
            rng.shuffle(out)
        return out[:5]
    if pattern == 'partial':
        keep = rng.sample(mine, max(1, len(mine) - rng.randint(0, len(mine) - 1)))
        if len(keep) == len(mine) and len(mine) > 1:
            keep = keep[:-1]
        out = keep + rest[:rng.randint(1, 2)]
        rng.shuffle(out)
        return out
    if pattern == 'disjoint':
        return rest[:rng.randint(1, 3)] or [mine[0] + '_x']
    raise ValueError(pattern)


def _pool(rng, prefix, alphabet):
    mk = T.ALPHABETS[alphabet]
    nums = [1, 2, 3, 9, 10, 11, 20, 100]
    rng.shuffle(nums)
    return [mk(rng, n, prefix) for n in nums]


def gen_case(rng, k=None, form=None, sample=None, observation=None, profile=None, opat=None, spat=None,
             smf=None, omf=None, cancel=None):
    if form is None:
        form = rng.choice(['single'] * 5 + ['list'] * 4 + ['tuple'])
    if k is None:
        k = 1 if form == 'single' else rng.choice([0] + [1, 1, 2, 2, 2, 3, 3] * 4)
    if form == 'single':
        k = 1
    alphabet = rng.choice(['short'] * 6 + ['long', 'punct', 'latin1', 'cjk', 'astral'])
    opool, spool = _pool(rng, 'o', alphabet), _pool(rng, 's', alphabet)
    values = rng.choice(['counts', 'counts', 'small', 'signed', 'signed', 'dyadic'])
    cancel = (rng.random() < 0.25) if cancel is None else cancel
    profile = profile or rng.choice(PROFILES)
    o0 = rng.sample(opool, rng.randint(1, 4))
    s0 = rng.sample(spool, rng.randint(1, 4))
    specs, pats = [], []
    for j in range(k + 1):
        if j == 0:
            oids, sids = o0, s0
        else:
            po = opat or rng.choice(PATTERNS)
            ps = spat or rng.choice(PATTERNS)
            pats.append([po, ps])
            oids, sids = _related(rng, o0, opool, po), _related(rng, s0, spool, ps)
        density = rng.choice([0.0, 0.3, 0.7, 0.7, 1.0])
        mat = [[T.rand_value(rng, values) if rng.random() < density else 0.0 for _ in sids] for _ in oids]
        if cancel and j > 0:
            first = specs[0]
            for a, o in enumerate(oids):
                for b, s in enumerate(sids):
                    if o in first['oids'] and s in first['sids'] and rng.random() < 0.6:
                        v = first['mat'][first['oids'].index(o)][first['sids'].index(s)]
                        mat[a][b] = -v if v else 0.0
        has = {'neither': False, 'self': j == 0, 'others': j > 0, 'all': True, 'random': rng.random() < 0.5,
               'last': j == k and j > 0}[profile]
        if has:
            ko = rng.choice(['full', 'full', 'partial', 'partial', 'none', 'hollow'])
            ks = rng.choice(['full', 'full', 'partial', 'partial', 'none', 'hollow'])
            if ko in ('none', 'hollow') and ks in ('none', 'hollow'):
                ks = 'partial' if len(sids) > 1 else 'full'
        else:
            ko, ks = rng.choice(['none', 'none', 'hollow']), 'none'
        spec = {'oids': list(oids), 'sids': list(sids), 'mat': mat,
                'omd': _mk_md(rng, ko, len(oids), 10 * j), 'smd': _mk_md(rng, ks, len(sids), 10 * j),
                'type': rng.choice([None, None, 'OTU table', 'Gene table']),
                'layout': T.rand_layout(rng, len(oids), len(sids))}
        specs.append(spec)
    names = ['default'] * 8 + ['prefer_self', 'prefer_other', 'prefer_other', 'self_only', 'other_only', 'drop', 'both',
                               'tag', 'tag', 'const', 'None']
    if smf is None and omf is None and rng.random() < 0.08:
        smf = omf = 'None'
    smf = smf or rng.choice(names)
    omf = omf or rng.choice(names)
    mode = ['union'] * 4 + ['intersection'] * 3
    if sample is None and observation is None and rng.random() < 0.02:
        sample, observation = rng.choice([('bogus', 'union'), ('union', 'bogus'), ('intersection', 'bogus'), ('bogus', 'bogus')])
    return {'specs': specs, 'form': form, 'sample': sample or rng.choice(mode), 'observation': observation or rng.choice(mode),
            'smf': smf, 'omf': omf, 'patterns': pats, 'profile': profile}


def gen(rng, tier):
    n = 1100 if tier == 'quick' else 11000
    reps = 1 if tier == 'quick' else 4
    for _ in range(reps):
        for sm in MODES[:2]:
            for om in MODES[:2]:
                for profile in PROFILES[:4]:
                    for pat in PATTERNS:
                        yield gen_case(rng, form='single', sample=sm, observation=om, profile=profile, opat=pat, spat=pat)
        for sm in MODES[:2]:
            for om in MODES[:2]:
                for k in (1, 2, 3):
                    for profile in ('neither', 'others', 'random', 'last'):
                        yield gen_case(rng, k=k, form='list', sample=sm, observation=om, profile=profile)
        for f in sorted(MDF):
            yield gen_case(rng, form='single', sample='union', observation='union', profile='all', smf=f, omf=f, opat='partial', spat='partial')
            yield gen_case(rng, form='single', sample='union', observation='intersection', profile='neither', smf=f, omf=f)
    for _ in range(n):
        if rng.random() < 0.15:       # extra weight on the fast path (metadata-free unions), pairs and lists
            yield gen_case(rng, sample='union', observation='union', profile='neither')
        else:
            yield gen_case(rng)
    if tier == 'thorough':
        for c in exhaustive_small():
            yield c


def exhaustive_small():
    """every ordered non-empty id list over two-element pools for both operands and both axes x 4 mode
    combinations x metadata on neither / receiver / other / both; values make overlapping cells cancel or add"""
    import itertools
    lists = lambda p: [[p + '1'], [p + '2'], [p + '1', p + '2'], [p + '2', p + '1']]
    md = lambda ids, tag: [{'m': tag + i} for i in ids]
    for oa, sa, ob, sb in itertools.product(lists('o'), lists('s'), lists('o'), lists('s')):
        va = {(o, s): float(1 + 2 * int(o[1]) + 5 * int(s[1])) for o in oa for s in sa}
        ma = [[va[o, s] for s in sa] for o in oa]
        mb = [[(-va[o, s] if (o, s) in va and o == 'o1' else 3.0) for s in sb] for o in ob]
        for sm in MODES[:2]:
            for om in MODES[:2]:
                for pa, pb in ((0, 0), (1, 0), (0, 1), (1, 1)):
                    yield {'specs': [{'oids': oa, 'sids': sa, 'mat': ma, 'omd': md(oa, 'a') if pa else None,
                                      'smd': None, 'type': None, 'layout': ['csr']},
                                     {'oids': ob, 'sids': sb, 'mat': mb, 'omd': None,
                                      'smd': md(sb, 'b') if pb else None, 'type': None, 'layout': ['csc']}],
                           'form': 'single', 'sample': sm, 'observation': om, 'smf': 'default', 'omf': 'default',
                           'patterns': [], 'profile': 'exhaustive'}


# ---------------------------------------------------------------- implementation
def takes_fast(case):
    """the rule of table.py:3843-3851 read off the operands' content"""
    cs = [T.spec_content(s) for s in case['specs']]
    no_md = all(c['omd'] is None and c['smd'] is None for c in cs)
    ignore = case['smf'] == 'None' and case['omf'] == 'None'
    return (no_md or ignore) and case['sample'] == 'union' and case['observation'] == 'union'


def _sorted_snap(s):
    """rows / columns in id order (used where the order of the result is not promised)"""
    s = dict(s)
    ro = sorted(range(len(s['oids'])), key=lambda i: s['oids'][i])
    co = sorted(range(len(s['sids'])), key=lambda j: s['sids'][j])
    s['mat'] = [[s['mat'][i][j] for j in co] for i in ro] if s['oids'] and s['sids'] else [[] for _ in ro]
    s['omd'] = None if s['omd'] is None else [s['omd'][i] for i in ro]
    s['smd'] = None if s['smd'] is None else [s['smd'][j] for j in co]
    s['oids'] = [s['oids'][i] for i in ro]
    s['sids'] = [s['sids'][j] for j in co]
    return s


def _finish(case, snap):
    snap = T.norm_snap(snap)
    return _sorted_snap(snap) if takes_fast(case) else snap


def run_impl(case):
    try:
        ts = [T.build(s) for s in case['specs']]
        for t, s in zip(ts, case['specs']):
            if canon(T.norm_snap(T.snapshot(t))) != canon(T.norm_snap(T.spec_content(s))):
                return ['crash-build', 'content', 'the built operand does not have the content of its spec']
    except Exception as e:
        return ['crash-build', type(e).__name__, str(e)[:200]]
    _INFO[id(case)] = [T.layout_info(t) for t in ts]
    kw = {'sample': case['sample'], 'observation': case['observation']}
    if case['smf'] != 'default':
        kw['sample_metadata_f'] = MDF[case['smf']][1]
    if case['omf'] != 'default':
        kw['observation_metadata_f'] = MDF[case['omf']][1]
    try:
        if case['form'] == 'single':
            r = ts[0].merge(ts[1], **kw)
        elif case['form'] == 'tuple':
            r = ts[0].merge(tuple(ts[1:]), **kw)
        else:
            r = ts[0].merge(list(ts[1:]), **kw)
    except Exception as e:
        return ['err', T.err_code(e)]
    return ['ok', _finish(case, T.snapshot(r))]


# ---------------------------------------------------------------- wire
def _coder(case):
    return T.Coder(T.spec_universe(*case['specs']))


def encode(case):
    cd = _coder(case)
    return [MODES.index(case['sample']), MODES.index(case['observation']), MDF[case['smf']][0], MDF[case['omf']][0],
            [cd.table(T.spec_content(s)) for s in case['specs']]]


def decode(tree, case):
    if tree[0] == -1:
        return ['err', tree[1]]
    return ['ok', _finish(case, _coder(case).untable(tree[1]))]


# ---------------------------------------------------------------- oracle (the property text)
def _text_prefer_self(x, y):
    """the receiver's if it has any, otherwise the other's"""
    return x if x else y


def _md_for(c, axis, i):
    ids, md = (c['oids'], c['omd']) if axis == 'o' else (c['sids'], c['smd'])
    if md is None or i not in ids:
        return None
    return md[ids.index(i)]


def oracle(case, obs):
    if obs and str(obs[0]).startswith('crash'):
        return ['could not build the operands: %s' % obs]
    cs = [T.spec_content(s) for s in case['specs']]
    k = len(cs)
    sm, om = case['sample'], case['observation']
    fast = takes_fast(case)
    if 'bogus' in (sm, om):
        if k >= 2 and obs != ['err', 1]:
            return ['an unknown merge mode was not refused with TableException: %s' % obs[:1]]
        return []

    def idset(mode, key):
        sets = [set(c[key]) for c in cs]
        return set.union(*sets) if mode == 'union' else set.intersection(*sets)
    want_o, want_s = idset(om, 'oids'), idset(sm, 'sids')
    if not want_o or not want_s:
        if obs != ['err', 1]:
            return ['no id is left on an axis but the merge was not refused with TableException: %s' % obs[:2]]
        return []
    if obs[0] != 'ok':
        return ['merge of tables with common ids was refused: %s' % obs]
    r = obs[1]
    fails = []
    for key, want in (('oids', want_o), ('sids', want_s)):
        if set(r[key]) != want or len(r[key]) != len(want):
            fails.append('%s of the result are %s, expected the %s %s' % (key, r[key], om if key == 'oids' else sm, sorted(want)))
    if fails:
        return fails
    R = {(o, s): r['mat'][i][j] for i, o in enumerate(r['oids']) for j, s in enumerate(r['sids'])}
    tot = 0.0
    for c in cs:
        for i, o in enumerate(c['oids']):
            for j, s in enumerate(c['sids']):
                tot += c['mat'][i][j]
    for (o, s), got in sorted(R.items()):
        want = 0.0
        for c in cs:
            if o in c['oids'] and s in c['sids']:
                want += c['mat'][c['oids'].index(o)][c['sids'].index(s)]
        if got != want:
            fails.append('value at (%s, %s) is %r, the operands sum to %r' % (o, s, got, want))
    if sm == 'union' and om == 'union' and sum(R.values()) != tot:
        fails.append('grand total %r differs from the sum of the operands\' totals %r' % (sum(R.values()), tot))
    # metadata
    if k == 1:
        return fails[:4]                            # nothing to merge with
    for axis, key, mdkey, fname in (('o', 'oids', 'omd', case['omf']), ('s', 'sids', 'smd', case['smf'])):
        if fname in CREATES and (k != 2 or fast):
            continue
        if fname == 'None':                         # no function: no metadata on this axis
            f = lambda x, y: None
        else:
            f = _text_prefer_self if fname in ('default', 'prefer_self') else MDF[fname][1]
        for n, i in enumerate(r[key]):
            want = _md_for(cs[0], axis, i)
            for c in cs[1:]:
                want = f(want, _md_for(c, axis, i))
            got = r[mdkey][n] if r[mdkey] is not None else None
            if (got or None) != (want or None):
                fails.append('metadata of %s is %r, the %s function over the operands\' metadata gives %r'
                             % (i, got, fname, want))
    return fails[:6]


# ---------------------------------------------------------------- bookkeeping
def nontrivial(case):
    specs = case['specs']
    if len(specs) < 2:
        return False
    a = specs[0]
    return any(set(a['oids']) != set(b['oids']) or set(a['sids']) != set(b['sids']) or
               (set(a['oids']) & set(b['oids']) and set(a['sids']) & set(b['sids'])) for b in specs[1:])


def _path(case):
    if takes_fast(case):
        return 'fast'
    if len(case['specs']) <= 2:
        return 'general'
    cs = [T.spec_content(s) for s in case['specs']]
    uu = case['sample'] == 'union' and case['observation'] == 'union'
    if uu and cs[0]['omd'] is None and cs[0]['smd'] is None and cs[1]['omd'] is None and cs[1]['smd'] is None:
        return 'pairwise:fast-then-general'
    return 'pairwise:general'


def classify(case):
    cs = [T.spec_content(s) for s in case['specs']]
    tags = ['form:' + case['form'], 'k:%d' % len(cs), 'modes:%s/%s' % (case['sample'][:5], case['observation'][:5]),
            'path:' + _path(case), 'smf:' + case['smf'], 'omf:' + case['omf'], 'profile:' + case.get('profile', '?')]
    have = [c['omd'] is not None or c['smd'] is not None for c in cs]
    tags.append('md:' + ('none' if not any(have) else 'all' if all(have) else
                         'receiver-only' if have[0] and not any(have[1:]) else
                         'others-only' if not have[0] else 'some'))
    for p in case.get('patterns', []):
        tags.append('opat:' + p[0])
        tags.append('spat:' + p[1])
    if len(cs) >= 2:
        a = cs[0]
        for b in cs[1:]:
            for i, o in enumerate(b['oids']):
                for j, s in enumerate(b['sids']):
                    if o in a['oids'] and s in a['sids'] and b['mat'][i][j] != 0 and \
                            a['mat'][a['oids'].index(o)][a['sids'].index(s)] == -b['mat'][i][j]:
                        tags.append('cancelling-cell')
                        break
                else:
                    continue
                break
    for li in _INFO.get(id(case), []):
        tags.append('layout:' + li)
    return tags


def shrink(case):
    specs = case['specs']
    if len(specs) > 2 or (len(specs) == 2 and case['form'] != 'single'):
        for i in range(1, len(specs)):
            c = copy.deepcopy(case)
            del c['specs'][i]
            yield c
    if case['form'] == 'tuple':
        c = copy.deepcopy(case); c['form'] = 'list'; yield c
    if case['form'] == 'list' and len(specs) == 2:
        c = copy.deepcopy(case); c['form'] = 'single'; yield c
    for key in ('smf', 'omf'):
        if case[key] not in ('default', 'None'):
            c = copy.deepcopy(case); c[key] = 'default'; yield c
    for i, s in enumerate(specs):
        if s['layout'] != ['dense']:
            c = copy.deepcopy(case); c['specs'][i]['layout'] = ['dense']; yield c
        if s['type'] is not None:
            c = copy.deepcopy(case); c['specs'][i]['type'] = None; yield c
        for key in ('omd', 'smd'):
            if s[key] is not None:
                c = copy.deepcopy(case); c['specs'][i][key] = None; yield c
        if len(s['oids']) > 1:
            for r in range(len(s['oids'])):
                c = copy.deepcopy(case); t = c['specs'][i]
                del t['oids'][r]; del t['mat'][r]
                if t['omd'] is not None:
                    del t['omd'][r]
                t['layout'] = ['dense']
                yield c
        if len(s['sids']) > 1:
            for q in range(len(s['sids'])):
                c = copy.deepcopy(case); t = c['specs'][i]
                del t['sids'][q]
                for row in t['mat']:
                    del row[q]
                if t['smd'] is not None:
                    del t['smd'][q]
                t['layout'] = ['dense']
                yield c
        for a in range(len(s['oids'])):
            for b in range(len(s['sids'])):
                if s['mat'][a][b] not in (0.0, 1.0):
                    c = copy.deepcopy(case); c['specs'][i]['mat'][a][b] = 1.0; c['specs'][i]['layout'] = ['dense']; yield c


SIGNATURES = {}
