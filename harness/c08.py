"""C08: filtering keeps exactly the selected IDs, intact and in order; remove_empty; head."""
import os
import numpy as np

import biom.table as bt
from biom import Table

from . import tables as T
from .core import canon, jhash

ID = 'C08'
RULE = ('tables from tables.rand_spec (dims 1..4, layout recipes incl. unsorted indices / stored zeros / CSC) x '
        '{filter by id collection (list/tuple/set/array, any order, invert, unknown ids), filter by predicate from a finite '
        'family over values/id/metadata (arguments recorded), remove_empty on sample/observation/whole, head(n,m)} x axis x inplace; '
        'a fixed sweep of every caller-supplied / left-behind layout x axis x value-reading predicate without normalising steps; in 35 % of the random cases after a HISTORY of one or two earlier id filters (same or other axis, in place or not); metadata kinds incl. entries whose values are all falsy; every call also observed for: result is / is not the receiver as inplace says, receiver of a non-in-place call unchanged; '
        'plus the arrays the compiled kernel actually received replayed through the model of its rebuild loop; '
        'thorough adds every matrix over {0,1,2} of shape 1x2..3x2 and every 27th 3x3 x every subset x invert x axis x inplace, remove_empty, head; '
        'non-trivial = table with >= 2 ids on the filtered axis and a selection that is neither empty nor everything; distinct by case hash')
TRUSTED = ['hand-written model coq/Model/Filter.v tied to biom/table.py + biom/_filter.pyx by this correspondence run',
           'compiled kernels are the shipped .so (Cython absent); when a .pyx differs from the pinned hash the harness runs the interpreted source instead (tools/decython.py)']
_TRUSTED_BASE = list(TRUSTED)


def regenerate():
    """re-translate the kernel loops of biom/_filter.pyx into coq/Gen/FilterGen.v (rebuild_body, remove_rows), then the
    Python-level wrappers (_filter, Table.filter / remove_empty / head) into coq/Gen/FilterWrapGen.v (tools/py2v_filt)"""
    _regenerate_kernel()
    from . import regen_filt as _regen_filt
    _regen_filt.hook(TRUSTED, ['filterwrap'], 'coq/Model/Filter.v', 'coq/Proofs/GenBridgeFilterWrapProofs.v',
                     keep_existing=True)()


def _regenerate_kernel():
    import os
    import re
    from . import core
    rc, out = core.sh([os.path.join(core.ROOT, 'tools', 'regen.sh'), 'filter', 'helpers', 'util'], timeout=300)
    del TRUSTED[:]
    TRUSTED.extend(_TRUSTED_BASE)
    if rc != 0:
        msg = [ln for ln in out.split('\n') if 'REFUSED' in ln]
        TRUSTED.append('translator REFUSED a source on this run; the generated file is stale')
        raise core.Broken('translator rejected %s' % (msg[0].split('REFUSED', 1)[1].strip() if msg else 'rc=%d' % rc), out[-3000:])
    for m in re.finditer(r'py2v: (\S+) -> (\S+) (written|unchanged) \(source sha256 ([0-9a-f]+)\)', out):
        TRUSTED.append('%s regenerated from %s by tools/py2v on this run (%s; sha256 of source %s)'
                       % (m.group(2), m.group(1), m.group(3), m.group(4)))


ASSUMPTIONS = ['predicates are deterministic functions of (vector, id, metadata) and copy the vector on receipt']

PREDS = {
    'sum_gt1': lambda v, i, m: v.sum() > 1,
    'nnz_ge2': lambda v, i, m: (v != 0).sum() >= 2,
    'first_nz': lambda v, i, m: bool(len(v)) and v[0] != 0,       # total: a history may have emptied the other axis
    'last_pos': lambda v, i, m: bool(len(v)) and v[-1] > 0,
    'id_even': lambda v, i, m: sum(str(i).encode()) % 2 == 0,
    'md_g1': lambda v, i, m: m is not None and m.get('g') == 'g1',
    'true': lambda v, i, m: True,
    'false': lambda v, i, m: False,
    'has_neg_or_big': lambda v, i, m: bool((v < 0).any() or (v > 5).any()),
}
AX = {'observation': 0, 'sample': 1}
_STASH = {}


def _coll(kind, ids):
    if kind == 'list':
        return list(ids)
    if kind == 'tuple':
        return tuple(ids)
    if kind == 'set':
        return set(ids)
    if kind == 'array':
        return np.array(list(ids), dtype=object) if ids else np.array([], dtype=object)
    if kind == 'dictkeys':
        return {i: 1 for i in ids}.keys()
    raise ValueError(kind)


def _eff(c):
    """the content the measured operation starts from: the spec, after the HISTORY of earlier filters the case
    prescribes (reference computed here, the implementation performs them for real)"""
    spec = c['spec']
    for ax, bits, inplace in c.get('pre', []):
        ids = spec['oids'] if ax == 'observation' else spec['sids']
        mask = [bool((bits >> n) & 1) for n in range(len(ids))]
        ref = _ref_filter(spec, ax, mask)
        spec = dict(spec, oids=ref['oids'], sids=ref['sids'], omd=ref['omd'], smd=ref['smd'],
                    mat=ref['mat'] if ref['oids'] and ref['sids'] else [[0.0] * len(ref['sids']) for _ in ref['oids']])
    return spec


def _history(c, t):
    for ax, bits, inplace in c.get('pre', []):
        ids = list(t.ids(axis=ax))
        keep = [i for n, i in enumerate(ids) if (bits >> n) & 1]
        t = t.filter(keep, axis=ax, inplace=inplace)
    return t


def _flags(c, t, r, before, inplace):
    """[the result is (inplace) / is not (otherwise) the receiver, the receiver of a non-in-place call is unchanged]"""
    if inplace:
        return ['flags', r is t, True]
    return ['flags', r is not t, canon(T.norm_snap(T.snapshot(t))) == canon(T.norm_snap(before))]


def run_impl(c):
    try:
        return _run_impl(c)
    except Exception as e:  # pragma: no cover - harness bug or crash in the library
        return ['crash', type(e).__name__, str(e)[:200]]


def _run_impl(c):
    t = _history(c, T.build(c['spec']))
    k = c['kind']
    before = T.snapshot(t)
    if k == 'ids':
        try:
            r = t.filter(_coll(c['ctype'], c['keep']), axis=c['axis'], invert=c['invert'], inplace=c['inplace'])
        except Exception as e:
            return ['err', T.err_code(e), T.norm_snap(T.snapshot(t)) == T.norm_snap(before)]
        return ['ok', T.norm_snap(T.snapshot(r)), _flags(c, t, r, before, c['inplace'])]
    if k == 'pred':
        calls = []
        f = PREDS[c['pred']]

        def pred(v, i, m):
            calls.append([np.array(v, dtype=float).tolist(), str(i), None if m is None else T.plain(dict(m))])
            return f(v, i, m)
        seen = {}
        real = bt._filter

        def spy(arr, ids, metadata, index, ids_to_keep, axis, invert):
            a = arr.tocsr() if axis == 0 else arr.tocsc()
            seen['arrays'] = [int(a.shape[::-1][axis]), a.indptr.tolist(), a.indices.tolist(), a.data.tolist()]
            return real(arr, ids, metadata, index, ids_to_keep, axis, invert)
        bt._filter = spy
        try:
            r = t.filter(pred, axis=c['axis'], invert=c['invert'], inplace=c['inplace'])
        finally:
            bt._filter = real
        _STASH[jhash(c)] = seen.get('arrays')
        out = ['ok', T.norm_snap(T.snapshot(r)), calls]
        if c.get('kernel'):
            out.append([x[0] for x in calls])
        out.append(_flags(c, t, r, before, c['inplace']))
        return out
    if k == 'remove_empty':
        r = t.remove_empty(axis=c['axis'], inplace=c['inplace'])
        return ['ok', T.norm_snap(T.snapshot(r)), _flags(c, t, r, before, c['inplace'])]
    if k == 'head':
        try:
            r = t.head(c['n'], c['m'])
        except Exception as e:
            return ['err', 9 if isinstance(e, IndexError) else T.err_code(e)]
        return ['ok', T.norm_snap(T.snapshot(r)), _flags(c, t, r, before, False)]
    raise ValueError(k)


class _Coder(T.Coder):
    """values k/64 travel as the scaled integer k (as everywhere); any other double (tiny magnitudes) travels as an
    opaque code above every scaled value of the case: the filter model only moves values and tests them for zero"""
    BASE = 10 ** 15

    def __init__(self, universe, values=()):
        T.Coder.__init__(self, universe)
        odd = sorted({float(v) for v in values if float(v) * T.SCALE != int(float(v) * T.SCALE)}, key=lambda v: (abs(v), v))
        self.odd = {v: self.BASE + n for n, v in enumerate(odd)}
        self.oddback = {k: v for v, k in self.odd.items()}

    def val(self, v):
        v = float(v)
        return self.odd[v] if v in self.odd else T.Coder.val(self, v)

    def unval(self, k):
        return self.oddback[k] if k in self.oddback else T.Coder.unval(self, k)


def _coder(c):
    return _Coder(T.spec_universe(c['spec']) + list(c.get('keep', [])), [v for row in c['spec']['mat'] for v in row])


FLAGS_OK = ['flags', True, True]


def encode(c):
    cd = _coder(c)
    tb = cd.table(T.norm_snap(T.spec_content(_eff(c))))
    k = c['kind']
    if k == 'ids':
        return [0, tb, [cd.id(i) for i in c['keep']], int(c['invert']), AX[c['axis']]]
    if k == 'pred':
        verdicts = _verdicts(c)
        tree = [1, tb, [int(v) for v in verdicts], int(c['invert']), AX[c['axis']]]
        if c.get('kernel'):
            arr = _STASH.get(jhash(c))
            if arr is None:
                arr = [0, [0], [], []]
            n, indptr, indices, data = arr
            return [5, tree, [4, n, indptr, indices, [cd.val(v) for v in data]]]
        return tree
    if k == 'remove_empty':
        return [2, tb, {'observation': 0, 'sample': 1, 'whole': 2}[c['axis']]]
    if k == 'head':
        return [3, tb, c['n'], c['m']]


def _vectors(spec, axis):
    M = np.array(spec['mat'], dtype=float).reshape(len(spec['oids']), len(spec['sids']))
    if axis == 'observation':
        return [M[i, :] for i in range(M.shape[0])], spec['oids'], spec.get('omd')
    return [M[:, j] for j in range(M.shape[1])], spec['sids'], spec.get('smd')


def _md_at(md, i):
    if md is None or all(not x for x in md):
        return None
    return md[i] if md[i] else {}


def _verdicts(c):
    """what the predicate answers on the TRUE vectors (reference, independent of the library)"""
    vecs, ids, md = _vectors(_eff(c), c['axis'])
    f = PREDS[c['pred']]
    return [bool(f(v, i, _md_at(md, k))) for k, (v, i) in enumerate(zip(vecs, ids))]


def decode(tree, c):
    cd = _coder(c)
    k = c['kind']
    if k == 'ids':
        if tree[0] == -1:
            return ['err', tree[1], True]
        return ['ok', T.norm_snap(cd.untable(tree[1])), FLAGS_OK]
    if k == 'pred':
        kern = None
        if c.get('kernel'):
            tree, kern = tree
        calls = [[[cd.unval(v) for v in call[0]], cd.unid(call[1]), None if not call[2] else T.md_untree(call[2][0])]
                 for call in tree[1]]
        out = ['ok', T.norm_snap(cd.untable(tree[0])), calls]
        if kern is not None:
            out.append([[cd.unval(v) for v in row] for row in kern])
        out.append(FLAGS_OK)
        return out
    if k == 'remove_empty':
        return ['ok', T.norm_snap(cd.untable(tree)), FLAGS_OK]
    if k == 'head':
        if tree[0] == -1:
            return ['err', tree[1]]
        return ['ok', T.norm_snap(cd.untable(tree[1])), FLAGS_OK]


# ---------------------------------------------------------------- oracle
def _norm_md(md):
    """a reader's view of metadata: entries all empty = no metadata; an entry without metadata = {}"""
    if md is None or all(not x for x in md):
        return None
    return [x if x else {} for x in md]


def _ref_filter(spec, axis, keepmask):
    s = T.spec_content(spec)
    idx = [i for i, b in enumerate(keepmask) if b]
    out = dict(s)
    if axis == 'observation':
        out['oids'] = [s['oids'][i] for i in idx]
        out['mat'] = [s['mat'][i] for i in idx]
        out['omd'] = None if s['omd'] is None else [s['omd'][i] for i in idx]
    else:
        out['sids'] = [s['sids'][i] for i in idx]
        out['mat'] = [[row[j] for j in idx] for row in s['mat']]
        out['smd'] = None if s['smd'] is None else [s['smd'][i] for i in idx]
    out['omd'], out['smd'] = _norm_md(out['omd']), _norm_md(out['smd'])
    return canon(T.norm_snap(out))


def oracle(c, obs):
    if obs and obs[0] == 'crash':
        return ['implementation crashed: %s' % obs[1:]]
    k = c['kind']
    spec = _eff(c)
    fails = []
    if obs[0] == 'ok' and obs[-1][0] == 'flags' and obs[-1] != FLAGS_OK:
        if not obs[-1][1]:
            fails.append('the call returned %s' % ('a new table although inplace=True' if c.get('inplace') else
                                                   'the receiver itself although a new table was asked for'))
        if not obs[-1][2]:
            fails.append('the receiver of a non-in-place call changed')
    if k == 'ids':
        ids = spec['oids'] if c['axis'] == 'observation' else spec['sids']
        unknown = [i for i in c['keep'] if i not in ids]
        if unknown:
            if obs[0] != 'err':
                fails.append('unknown id %r was not refused' % unknown[0])
            elif not obs[2]:
                fails.append('refused filter left the table changed')
            return fails
        mask = [(i in c['keep']) != c['invert'] for i in ids]
        if obs[0] != 'ok' or obs[1] != _ref_filter(spec, c['axis'], mask):
            fails.append('filter by ids %r invert=%s axis=%s: result differs from the dense reference' % (c['keep'], c['invert'], c['axis']))
    elif k == 'pred':
        vecs, ids, md = _vectors(spec, c['axis'])
        want_calls = canon([[v.tolist(), i, _md_at(md, n)] for n, (v, i) in enumerate(zip(vecs, ids))])
        if obs[2] != want_calls:
            fails.append('predicate %s on axis %s received %s, the true (vector, id, metadata) sequence is %s'
                         % (c['pred'], c['axis'], obs[2], want_calls))
        mask = [v != c['invert'] for v in _verdicts(c)]
        if obs[1] != _ref_filter(spec, c['axis'], mask):
            fails.append('filter by predicate %s invert=%s axis=%s: result differs from filtering by the accepted ids' % (c['pred'], c['invert'], c['axis']))
    elif k == 'remove_empty':
        cur = spec
        axes = ['sample', 'observation'] if c['axis'] == 'whole' else [c['axis']]
        ref = None
        for ax in axes:
            vecs, ids, md = _vectors(cur, ax)
            ref = _ref_filter(cur, ax, [bool((v != 0).any()) for v in vecs])
            cur = dict(cur, oids=ref['oids'], sids=ref['sids'], mat=ref['mat'] if ref['oids'] and ref['sids'] else [[0.0] * len(ref['sids']) for _ in ref['oids']],
                       omd=ref['omd'], smd=ref['smd'])
        if obs[1] != ref:
            fails.append('remove_empty(%s) did not remove exactly the all-zero vectors' % c['axis'])
    elif k == 'head':
        if c['n'] <= 0 or c['m'] <= 0:
            if obs[0] != 'err':
                fails.append('head(%d,%d) was not refused' % (c['n'], c['m']))
            return fails
        s = T.spec_content(spec)
        n, m = c['n'], c['m']
        ref = dict(s, oids=s['oids'][:n], sids=s['sids'][:m], mat=[r[:m] for r in s['mat'][:n]],
                   omd=_norm_md(None if s['omd'] is None else s['omd'][:n]),
                   smd=_norm_md(None if s['smd'] is None else s['smd'][:m]))
        if obs[0] != 'ok' or obs[1] != canon(T.norm_snap(ref)):
            fails.append('head(%d,%d) is not the leading block' % (n, m))
    return fails


# ---------------------------------------------------------------- generation
def gen_case(rng, spec=None):
    spec = spec or T.rand_spec(rng, max_r=4, max_c=4, values=rng.choice(['counts', 'small', 'signed', 'dyadic', 'tiny']),
                               md=rng.choice(['none', 'group', 'group', 'text', 'obs', 'samp', 'partial', 'partial', 'falsy', 'falsy']), ttype=rng.choice([None, 'OTU table']))
    axis = rng.choice(['observation', 'sample'])
    c = _gen_op(rng, spec, axis)
    if rng.random() < 0.35:
        # a history of one or two earlier id filters (prior histories: stale lookups, layouts, normalised metadata)
        pre = []
        for _ in range(rng.choice([1, 1, 2])):
            pre.append([rng.choice([axis, axis, 'sample' if axis == 'observation' else 'observation']), rng.getrandbits(4) | rng.choice([1, 2, 4]),
                        rng.random() < 0.5])
        c['pre'] = pre
        eff = _eff(c)
        ids = eff['oids'] if axis == 'observation' else eff['sids']
        if c['kind'] == 'ids':
            c['keep'] = [i for i in c['keep'] if i in ids or i not in (spec['oids'] + spec['sids']) or rng.random() < 0.15]
    return c


def _gen_op(rng, spec, axis):
    ids = spec['oids'] if axis == 'observation' else spec['sids']
    r = rng.random()
    if r < 0.4:
        keep = [i for i in ids if rng.random() < 0.5]
        rng.shuffle(keep)
        if keep and rng.random() < 0.3:
            # an id named more than once; half of the time exactly as many names as the axis has ids
            n_rep = (len(ids) - len(keep)) if rng.random() < 0.5 else rng.randint(1, 3)
            for _ in range(max(n_rep, 0)):
                keep.insert(rng.randint(0, len(keep)), rng.choice(keep))
        if rng.random() < 0.12:
            # an unknown id: unrelated, or an extension / prefix / case variant of a real one
            base = rng.choice(ids)
            unk = rng.choice(['nope', base + '0', base + '5', base + base, base[:-1] or 'q', base.upper(), ' ' + base])
            if unk not in ids:
                keep.insert(rng.randint(0, len(keep)), unk)
        return {'kind': 'ids', 'spec': spec, 'axis': axis, 'keep': keep, 'invert': rng.random() < 0.4,
                'inplace': rng.random() < 0.5, 'ctype': rng.choice(['list', 'tuple', 'set', 'array', 'dictkeys'])}
    if r < 0.75:
        return {'kind': 'pred', 'spec': spec, 'axis': axis, 'pred': rng.choice(sorted(PREDS)), 'invert': rng.random() < 0.3,
                'inplace': rng.random() < 0.5, 'kernel': True}
    if r < 0.9:
        return {'kind': 'remove_empty', 'spec': spec, 'axis': rng.choice(['observation', 'sample', 'whole']), 'inplace': rng.random() < 0.5}
    return {'kind': 'head', 'spec': spec, 'n': rng.randint(-1, 5), 'm': rng.randint(0, 5)}


def exhaustive_small():
    """every matrix over {0,1,2} of shape 1x2, 2x2, 2x3, 3x2 and every 27th of the 3^9 3x3 matrices (all 3x3
    matrices with VERIF_C08_FULL=1) x every subset of each axis x invert x inplace (both values up to 2x2,
    alternating beyond) + one predicate filter per axis + remove_empty on each axis and whole + head(n, m) for
    every n, m up to the shape, on a table whose column indices were left unsorted by a reordering"""
    import itertools
    full = os.environ.get('VERIF_C08_FULL') == '1'
    for r, c in [(1, 2), (2, 2), (2, 3), (3, 2), (3, 3)]:
        for num, vals in enumerate(itertools.product([0.0, 1.0, 2.0], repeat=r * c)):
            if (r, c) == (3, 3) and not full and num % 27 != 13:
                continue
            mat = [list(vals[i * c:(i + 1) * c]) for i in range(r)]
            spec = {'oids': ['o%d' % i for i in range(r)], 'sids': ['s%d' % i for i in range(c)], 'mat': mat,
                    'omd': None, 'smd': None, 'type': None, 'layout': ['csr', ['via_sort_samp', list(range(c))[::-1]]]}
            n = 0
            for axis, ids in (('observation', spec['oids']), ('sample', spec['sids'])):
                for k in range(len(ids) + 1):
                    for keep in itertools.combinations(ids, k):
                        for inv in (False, True):
                            for inplace in ((False, True) if r * c <= 4 else (bool((n + inv) % 2),)):
                                yield {'kind': 'ids', 'spec': spec, 'axis': axis, 'keep': list(keep), 'invert': inv,
                                       'inplace': inplace, 'ctype': 'list'}
                        n += 1
                yield {'kind': 'pred', 'spec': spec, 'axis': axis, 'pred': 'sum_gt1', 'invert': False, 'inplace': False, 'kernel': True}
            for ax in ('observation', 'sample', 'whole'):
                yield {'kind': 'remove_empty', 'spec': spec, 'axis': ax, 'inplace': ax == 'sample'}
            if num % 9 == 4:
                for hn in range(1, r + 1):
                    for hm in range(1, c + 1):
                        yield {'kind': 'head', 'spec': spec, 'n': hn, 'm': hm}


def layout_sweep(rng):
    """every layout the caller can hand over or an earlier call can leave behind, WITHOUT further steps that
    would normalise it, x both axes x every value-reading predicate and one id filter: the kernel must see
    the true vectors whatever order / format the stored entries have"""
    mats = [[[1.0, 2.0, 3.0, 0.0], [0.0, 5.0, 0.0, 4.0], [6.0, 0.0, 7.0, 8.0]],
            [[2.0, 0.0, 1.0], [0.0, 0.0, 3.0], [1.0, 4.0, 2.0], [0.0, 2.0, 0.0]]]
    for mat in mats:
        r, c = len(mat), len(mat[0])
        base = {'oids': ['o%d' % i for i in range(r)], 'sids': ['s%d' % j for j in range(c)], 'mat': mat,
                'omd': None, 'smd': None, 'type': None}
        layouts = [[k] for k in ('csr_unsorted', 'csr_zero', 'csc', 'coo', 'lists')]
        layouts += [['csr', ['via_sort_samp', list(range(c))[::-1]]], ['csc', ['via_sort_obs', list(range(r))[::-1]]],
                    ['csr', 'colaccess'], ['csc', 'rowaccess']]
        for lay in layouts:
            spec = dict(base, layout=lay)
            for axis in ('observation', 'sample'):
                for pred in ('sum_gt1', 'nnz_ge2', 'first_nz', 'last_pos', 'has_neg_or_big'):
                    yield {'kind': 'pred', 'spec': spec, 'axis': axis, 'pred': pred, 'invert': False,
                           'inplace': rng.random() < 0.5, 'kernel': True}
                ids = spec['oids'] if axis == 'observation' else spec['sids']
                yield {'kind': 'ids', 'spec': spec, 'axis': axis, 'keep': ids[1:][::-1], 'invert': False,
                       'inplace': rng.random() < 0.5, 'ctype': 'list'}
                if lay in (['csr_unsorted'], ['csc']) and len(ids) >= 2:
                    # repeated names, as many names as the axis has ids (and one more / one fewer), every container
                    for ctype in ('list', 'tuple', 'array'):
                        for keep in ([ids[-1]] * len(ids), [ids[-1], ids[0]] + [ids[-1]] * (len(ids) - 2),
                                     [ids[0]] * (len(ids) + 1), [ids[0]] * (len(ids) - 1)):
                            for inv in (False, True):
                                yield {'kind': 'ids', 'spec': spec, 'axis': axis, 'keep': keep, 'invert': inv,
                                       'inplace': ctype == 'tuple', 'ctype': ctype}
                yield {'kind': 'remove_empty', 'spec': spec, 'axis': axis, 'inplace': False}


def gen(rng, tier):
    n = 500 if tier == 'quick' else 5000
    for c in layout_sweep(rng):
        yield c
    for _ in range(n):
        yield gen_case(rng)
    if tier == 'thorough':
        for c in exhaustive_small():
            yield c


def nontrivial(c):
    ids = _eff(c)['oids'] if c.get('axis') == 'observation' else _eff(c)['sids']
    if c['kind'] == 'ids':
        return len(ids) >= 2 and 0 < len(set(c['keep']) & set(ids)) < len(ids)
    if c['kind'] == 'pred':
        v = _verdicts(c)
        return len(v) >= 2 and any(v) and not all(v)
    return len(c['spec']['oids']) >= 2 and len(c['spec']['sids']) >= 2


def classify(c):
    tags = ['kind:' + c['kind'], 'layout0:' + str(c['spec']['layout'][0] if c['spec']['layout'] else 'dense')]
    try:
        tags.append('repr:' + T.layout_info(T.build(c['spec'])))
    except Exception:
        tags.append('repr:unbuildable')
    if c['kind'] == 'ids':
        tags.append('ctype:' + c['ctype'])
        ids = c['spec']['oids'] if c['axis'] == 'observation' else c['spec']['sids']
        if any(i not in ids for i in c['keep']):
            tags.append('unknown-id')
    if c['kind'] == 'pred':
        tags.append('pred:' + c['pred'])
    tags.append('history:%d' % len(c.get('pre') or []))
    for md in (c['spec'].get('omd'), c['spec'].get('smd')):
        if md and any(x and not any(x.values()) for x in md):
            tags.append('md:all-falsy-entry')
            break
    return tags


def shrink(c):
    pre = c.get('pre') or []
    for i in range(len(pre)):
        yield dict(c, pre=pre[:i] + pre[i + 1:])
    if pre:
        return            # ids named by the case refer to the table after the history: shrink the history first
    s = c['spec']
    r, k = len(s['oids']), len(s['sids'])
    for i in range(r):
        if r > 1:
            s2 = dict(s, oids=s['oids'][:i] + s['oids'][i + 1:], mat=s['mat'][:i] + s['mat'][i + 1:],
                      omd=None if s['omd'] is None else s['omd'][:i] + s['omd'][i + 1:], layout=['csr'])
            c2 = dict(c, spec=s2)
            if 'keep' in c:
                c2['keep'] = [x for x in c['keep'] if x != s['oids'][i]]
            yield c2
    for j in range(k):
        if k > 1:
            s2 = dict(s, sids=s['sids'][:j] + s['sids'][j + 1:], mat=[row[:j] + row[j + 1:] for row in s['mat']],
                      smd=None if s['smd'] is None else s['smd'][:j] + s['smd'][j + 1:], layout=['csr'])
            c2 = dict(c, spec=s2)
            if 'keep' in c:
                c2['keep'] = [x for x in c['keep'] if x != s['sids'][j]]
            yield c2
    if s['layout'] and len(s['layout']) > 1:
        yield dict(c, spec=dict(s, layout=s['layout'][:-1]))
    if s.get('omd') or s.get('smd'):
        yield dict(c, spec=dict(s, omd=None, smd=None))


SIGNATURES = {}
