"""C18: metadata updates affect exactly the named ids and keys; mapping files parse to the
relation their rows describe.

Kinds of cases
  add      Table.add_metadata(mapping, axis) on a table with / without metadata on that axis; the
           mapping covers a subset / superset of the ids, overwrites and adds keys
  del      Table.del_metadata(keys, axis) for axis in sample / observation / whole (+ unknown)
  map      a mapping file generated from the row grammar (white-space lines, header line, comment
           lines, blank lines, short rows, quoted and padded cells, typed columns, header override)
           printed by the harness AND by the model's own printer, parsed by MetadataMap.from_file
  maptext  raw (mutated) mapping-file lines: parser vs model
  cli      `_add_metadata` (the add-metadata command) with mapping files for one or both axes;
           thorough: the `biom add-metadata` subprocess
  (del cases may be preceded by READS of keys an id lacks - entries are default-None mappings,
           the read materialises `key: None` - and specs may hold keys with the explicit value None)
  prog     histories of 2-4 add/del/read steps over several tables (receiver, donor, partition()
           siblings and their parent) where mapping values are the metadata OBJECTS another table
           (or the receiver) holds for an id - the same object for two ids, objects of another
           table - and ALL tables are observed after every step (aliasing between ids / tables)
The model side is coq/Run/RunC18.v (extracted)."""
import copy
import io
import os
import shutil
import subprocess
import sys
import tempfile

import numpy as np

from biom import load_table
from biom.cli.metadata_adder import (_add_metadata, _float, _int, _split_on_semicolons,
                                     _split_on_semicolons_and_pipes)
from biom.parse import MetadataMap

from . import tables
from .clirun import biom as run_biom
from .core import REPO

ID = 'C18'
RULE = ('add/del: tables.rand_spec (1..4 x 1..4, all layout recipes, metadata kinds none/text/num/tax/group/one axis only, '
        'entries None) x mappings over random subsets of the ids plus unknown ids, entries overwriting existing keys, adding '
        'new ones, empty entries, empty mapping x both axes (+ an unknown axis); deletion of None / subsets of present keys + '
        'absent keys on sample/observation/whole. map: grammar values (0-2 white-space lines, 1-5 columns, comment and blank '
        'items, rows with 1..n+1 cells, quoted / space-padded cells, ; and | separated, int, float columns, header override '
        'of 1..n names, the four strip_f variants) printed by harness and model. maptext: mutated files. cli: _add_metadata '
        'with files for one or both axes. prog: 2-3 tables (+ partition siblings of table 0) x 2-4 steps whose mapping entries '
        'are literal dicts or references to the metadata object some table holds for an id (same object for two ids, another '
        "table's objects, the receiver's own), every table snapshotted after every step. non-trivial = the operation "
        'changes / deletes at least one key, or the file has >= 1 '
        'data row; distinct by case hash')
TRUSTED = ['hand-written model coq/Model/Metadata.v tied to biom/table.py (add_metadata, del_metadata, _cast_metadata), '
           'biom/parse.py (MetadataMap.from_file) and biom/cli/metadata_adder.py (_add_metadata) by this correspondence run',
           "int() / float() on field texts are oracles of the model (their graph on the case's texts is sent along)",
           'Python str.strip character class (validated in C03), str.replace, str.split',
           'extraction (ExtrOcamlBasic only) + ocaml/driver_tail.ml, cross-checked against vm_compute on a sample']
from . import regen_dyn as _regen_dyn
# py2v_dyn (state mode): regenerate coq/Gen/MetadataGen.v from Table.add_metadata / Table.del_metadata first
_regenerate_metadata = _regen_dyn.hook(TRUSTED, ['metadata'], tie=(
    'tied to the hand-written model coq/Model/Metadata.v (add_metadata, del_metadata) by the *_is_source theorems at the '
    'end of coq/Props/C18.v (coq/Proofs/GenBridgeMetadataProofs.v); trusted: the translator tools/py2v_dyn/statemode.py, its '
    'signature file tools/py2v_dyn/sigs/metadata.json (Table.metadata / ids / exists / index / _index / _cast_metadata pinned by '
    'the hash of their AST) and the tb_* vocabulary coq/Gen/MetaPrelude.v'))
# py2v (mapping-file mode): regenerate coq/Gen/MapFileGen.v from MetadataMap.from_file (biom/parse.py) as well;
# tied to strip_f / map_step / row_dict / parse_mapping of coq/Model/Metadata.v by strip_f_is_source,
# from_file_line_is_source, from_file_cols_is_source, from_file_is_source (coq/Proofs/GenBridgeMapFileProofs.v)
from . import regen as _regen
from . import core as _core
_MAPFILE_TRUSTED = []
_regenerate_mapfile = _regen.hook(_MAPFILE_TRUSTED, ['mapfile'])


def regenerate():
    """both translators run, also when the first one refuses its source"""
    first = None
    try:
        _regenerate_metadata()
    except _core.Broken as e:
        first = e
    try:
        _regenerate_mapfile()
    finally:
        TRUSTED.extend(_MAPFILE_TRUSTED)
    if first is not None:
        raise first


ASSUMPTIONS = ['mappings are Python dicts (unique ids, unique keys)',
               'a mapping does not hand add_metadata the live metadata objects of the very axis it updates',
               'metadata values are only moved, never inspected, by add/del',
               'float-typed columns hold dyadic rationals in generated files (exact wire coding)']


# ------------------------------------------------------------------ wire coding
def cps(s):
    return [ord(ch) for ch in s]


def uncps(t):
    return ''.join(chr(c) for c in t)


def vtree(x):
    if x is None:
        return [0]
    if isinstance(x, bool):
        return [1, int(x)]
    if isinstance(x, int):
        return [2, x]
    if isinstance(x, float):
        k = x * 64
        if k != int(k):
            raise ValueError('float %r is not dyadic' % x)
        return [3, int(k)]
    if isinstance(x, str):
        return [4, cps(x)]
    if isinstance(x, (list, tuple)):
        return [5, [vtree(v) for v in x]]
    if isinstance(x, dict):
        return [6, [[cps(k), vtree(v)] for k, v in x.items()]]
    raise TypeError(type(x))


def unvtree(t):
    k = t[0]
    if k == 0:
        return None
    if k == 1:
        return bool(t[1])
    if k == 2:
        return t[1]
    if k == 3:
        return t[1] / 64
    if k == 4:
        return uncps(t[1])
    if k == 5:
        return [unvtree(v) for v in t[1]]
    if k == 6:
        return {uncps(a): unvtree(b) for a, b in t[1]}
    raise ValueError(t)


def norm_md(md):
    """what the constructor keeps of a metadata argument (table.py:495-513, 666-686)"""
    if md is None or all(not m for m in md):
        return None
    return [dict(m) if m else {} for m in md]


def enc_entry(e):
    return [[cps(k), vtree(v)] for k, v in e.items()]


def enc_md(md):
    md = norm_md(md)
    return [] if md is None else [[enc_entry(e) for e in md]]


def enc_table(spec):
    return [[cps(i) for i in spec['oids']], [cps(i) for i in spec['sids']],
            [[int(v * 64) for v in row] for row in spec['mat']], enc_md(spec.get('omd')), enc_md(spec.get('smd'))]


def dec_md(m):
    return None if not m else [{uncps(k): unvtree(v) for k, v in e} for e in m[0]]


def dec_table(t):
    oids, sids, mat, omd, smd = t
    return {'oids': [uncps(x) for x in oids], 'sids': [uncps(x) for x in sids],
            'mat': [[k / 64 for k in row] for row in mat] if oids and sids else [[] for _ in oids],
            'omd': dec_md(omd), 'smd': dec_md(smd)}


def dec_mapping(m):
    return [[uncps(i), {uncps(k): unvtree(v) for k, v in e}] for i, e in m]


def dec_result(t, f):
    return ['err', t[1]] if t[0] == -1 else f(t[1])


def snap(t):
    s = tables.snapshot(t)
    return {'oids': s['oids'], 'sids': s['sids'],
            'mat': s['mat'] if s['oids'] and s['sids'] else [[] for _ in s['oids']], 'omd': s['omd'], 'smd': s['smd']}


# ------------------------------------------------------------------ mapping files
def sf(x, sq, ss):
    """strip_f as the docstrings of the four variants describe it"""
    if sq:
        x = x.replace('"', '')
    return x if ss else x.strip()


def render(g):
    lines = list(g['pre']) + ['#' + '\t'.join(g['names'])]
    for kind, body in g['items']:
        lines.append('#' + body if kind == 'c' else body if kind == 'b' else '\t'.join(body))
    return lines


def fns_of(opts):
    fns = {}
    fns.update(dict.fromkeys(opts['sc'], _split_on_semicolons))
    fns.update(dict.fromkeys(opts['pipe'], _split_on_semicolons_and_pipes))
    fns.update(dict.fromkeys(opts['int'], _int))
    fns.update(dict.fromkeys(opts['float'], _float))
    return fns


def conv_table(texts):
    """graph of int() / float() on every text the parser may hand to a conversion"""
    cand = []
    for x in texts:
        for y in (x, x.replace('"', ''), x.strip(), x.replace('"', '').strip()):
            if y not in cand:
                cand.append(y)
    if '' not in cand:
        cand.append('')
    out = []
    for y in cand:
        try:
            out.append([3, cps(y), vtree(int(y))])
        except ValueError:
            pass
        try:
            out.append([4, cps(y), vtree(float(y))])
        except ValueError:
            pass
    return out


def enc_opts(o):
    return [[cps(x) for x in o[k]] for k in ('sc', 'pipe', 'int', 'float')]


def enc_grammar(g):
    items = []
    for kind, body in g['items']:
        items.append([0, cps(body)] if kind == 'c' else [1, cps(body)] if kind == 'b' else [2, [cps(x) for x in body]])
    return [[cps(x) for x in g['pre']], [cps(x) for x in g['names']], items]


def cells_of(lines):
    return [p for line in lines for p in line.split('\t')]


def feed(lines, via, tmp):
    """the same lines as list / handle / path"""
    if via == 'lines':
        return list(lines)
    text = ''.join(x + '\n' for x in lines)
    if via == 'handle':
        return io.StringIO(text)
    p = os.path.join(tmp, 'map_%d.txt' % len(os.listdir(tmp)))
    with open(p, 'w', encoding='utf-8', newline='') as fh:
        fh.write(text)
    return p


# ------------------------------------------------------------------ implementation side
def err(e):
    return ['err', tables.err_code(e)]


def run_impl(c):
    tmp = None
    try:
        k = c['kind']
        if k == 'add':
            t = tables.build(c['spec'])
            try:
                t.add_metadata({i: dict(e) for i, e in c['mapping']}, axis=c['axis'])
            except Exception as e:
                return err(e)
            return snap(t)
        if k == 'del':
            t = tables.build(c['spec'])
            for ax, id_, key in c.get('reads', []):
                do_read(t, ax, id_, key)
            try:
                t.del_metadata(keys=c['keys'], axis=c['axis'])
            except Exception as e:
                return err(e)
            return snap(t)
        if k in ('map', 'maptext'):
            lines = render(c['g']) if k == 'map' else list(c['lines'])
            tmp = tempfile.mkdtemp(prefix='c18_')
            try:
                m = MetadataMap.from_file(feed(lines, c.get('via', 'lines'), tmp), strip_quotes=c['sq'],
                                          suppress_stripping=c['ss'], header=c['header'], process_fns=fns_of(c['opts']))
                parsed = [[i, tables.plain(dict(e))] for i, e in m.items()]
            except Exception as e:
                parsed = err(e)
            return {'lines': lines, 'parsed': parsed}
        if k == 'prog':
            return run_prog(c)
        if k == 'cli':
            tmp = tempfile.mkdtemp(prefix='c18_')
            t = tables.build(c['spec'])
            o = c['opts']
            try:
                if c.get('via') in ('subprocess', 'command'):
                    r = cli_command(t, c, tmp)
                else:
                    sm = None if c['samp'] is None else feed(c['samp'], c.get('via', 'handle'), tmp)
                    om = None if c['obs'] is None else feed(c['obs'], c.get('via', 'handle'), tmp)
                    if isinstance(sm, str):
                        sm = open(sm, encoding='utf-8')
                    if isinstance(om, str):
                        om = open(om, encoding='utf-8')
                    r = _add_metadata(t, sm, om, o['sc'] or None, o['pipe'] or None, o['int'] or None, o['float'] or None,
                                      c['samp_header'], c['obs_header'])
                    for fh in (sm, om):
                        if hasattr(fh, 'close'):
                            fh.close()
                sn = snap(r)
                if '_written' in c:
                    sn['file'] = c.pop('_written')          # the format the command really wrote
                return sn
            except Exception as e:
                c.pop('_written', None)
                return err(e)
        raise ValueError(k)
    except Exception as e:  # pragma: no cover
        return ['crash', type(e).__name__, str(e)[:200]]
    finally:
        if tmp:
            shutil.rmtree(tmp, ignore_errors=True)


def do_read(t, axis, id_, key):
    """t.metadata(id, axis)[key]: entries are default-None mappings, a missing key gets materialised"""
    md = t.metadata(id_, axis=axis)
    if md is not None:
        md[key]


def partition_specs(spec, key):
    """what Table.partition(lambda i, m: m[key]) on the sample axis must give, group values sorted"""
    out = []
    for val in sorted(set(m[key] for m in spec['smd'])):
        cols = [j for j, m in enumerate(spec['smd']) if m[key] == val]
        out.append({'oids': list(spec['oids']), 'sids': [spec['sids'][j] for j in cols],
                    'mat': [[row[j] for j in cols] for row in spec['mat']],
                    'omd': copy.deepcopy(spec.get('omd')), 'smd': [copy.deepcopy(spec['smd'][j]) for j in cols],
                    'type': None, 'layout': ['dense']})
    return out


def prog_specs(c):
    specs = list(c['specs'])
    if c.get('derive'):
        specs += partition_specs(specs[0], c['derive'])
    return specs


def run_prog(c):
    tabs = [tables.build(sp) for sp in c['specs']]
    if c.get('derive'):
        key = c['derive']
        parts = dict(tabs[0].partition(lambda i, m: m[key]))
        tabs += [parts[v] for v in sorted(parts)]
    out = []
    for st in c['steps']:
        try:
            if st[0] == 'read':
                do_read(tabs[st[1]], st[2], st[3], st[4])
            elif st[0] == 'add':
                _, ti, axis, items = st
                m = {}
                for id_, src in items:
                    if src[0] == 'lit':
                        m[id_] = dict(src[1])
                    else:
                        obj = tabs[src[1]].metadata(src[3], axis=src[2])     # the object itself, no copy
                        m[id_] = obj if obj is not None else {}
                tabs[ti].add_metadata(m, axis=axis)
            else:
                _, ti, keys, axis = st
                tabs[ti].del_metadata(keys=keys, axis=axis)
        except Exception as e:
            out.append(err(e))
            break
        out.append([snap(t) for t in tabs])
    return out


def cli_command(t, c, tmp):
    """the real `biom add-metadata` command (click wrapper included): in process ('command') or in a
    fresh interpreter ('subprocess'); input as JSON or HDF5 file, output JSON (--output-as-json) or HDF5"""
    io_ = c.get('io') or {'src': 'json', 'out': 'json'}
    src = os.path.join(tmp, 'src.biom')
    if io_['src'] == 'json':
        with open(src, 'w', encoding='utf-8') as fh:
            fh.write(t.to_json('c18'))
    else:
        import h5py
        with h5py.File(src, 'w') as fh:
            t.to_hdf5(fh, 'c18')
    out = os.path.join(tmp, 'out.biom')
    args = ['add-metadata', '-i', src, '-o', out] + (['--output-as-json'] if io_['out'] == 'json' else [])
    o = c['opts']
    if c['samp'] is not None:
        args += ['-m', feed(c['samp'], 'path', tmp)]
    if c['obs'] is not None:
        args += ['--observation-metadata-fp', feed(c['obs'], 'path', tmp)]
    for flag, key in (('--sc-separated', 'sc'), ('--sc-pipe-separated', 'pipe'), ('--int-fields', 'int'), ('--float-fields', 'float')):
        if o[key]:
            args += [flag, ','.join(o[key])]
    if c['samp_header']:
        args += ['--sample-header', ','.join(c['samp_header'])]
    if c['obs_header']:
        args += ['--observation-header', ','.join(c['obs_header'])]
    run_biom(args, 'inproc' if c['via'] == 'command' else 'subprocess')
    import h5py
    c['_written'] = 'hdf5' if h5py.is_hdf5(out) else 'json'
    return load_table(out)


def hdf5_ok(spec):
    """metadata an HDF5 file carries unchanged: per axis none, or the same string-valued keys for every id"""
    for key in ('omd', 'smd'):
        md = norm_md(spec.get(key))
        if md is None:
            continue
        if len(set(tuple(sorted(e)) for e in md)) != 1 or not md[0]:
            return False
        if any(not isinstance(v, str) for e in md for v in e.values()):
            return False
    return True


# ------------------------------------------------------------------ model side
AX = {'observation': 0, 'sample': 1, 'whole': 2}


def encode(c):
    k = c['kind']
    if k == 'add':
        return [0, enc_table(c['spec']), [[cps(i), enc_entry(e)] for i, e in c['mapping']],
                {'observation': 0, 'sample': 1}.get(c['axis'], 7)]
    if k == 'del' and c.get('reads'):
        steps = [[2, 0, AX[ax], cps(i), cps(key)] for ax, i, key in c['reads']]
        steps.append([1, 0, [] if c['keys'] is None else [[cps(x) for x in c['keys']]], AX[c['axis']]])
        return [5, [enc_table(c['spec'])], steps]
    if k == 'del':
        return [1, enc_table(c['spec']), [] if c['keys'] is None else [[cps(x) for x in c['keys']]], AX.get(c['axis'], 7)]
    if k == 'map':
        lines = render(c['g'])
        return [4, conv_table(cells_of(lines)), int(c['sq']), int(c['ss']), [cps(x) for x in (c['header'] or [])],
                enc_opts(c['opts']), enc_grammar(c['g'])]
    if k == 'maptext':
        return [2, conv_table(cells_of(c['lines'])), int(c['sq']), int(c['ss']), [cps(x) for x in (c['header'] or [])],
                enc_opts(c['opts']), [cps(x) for x in c['lines']]]
    if k == 'prog':
        steps = []
        for st in c['steps']:
            if st[0] == 'read':
                steps.append([2, st[1], AX[st[2]], cps(st[3]), cps(st[4])])
            elif st[0] == 'add':
                items = [[cps(i), [0, enc_entry(src[1])] if src[0] == 'lit' else [1, src[1], AX[src[2]], cps(src[3])]]
                         for i, src in st[3]]
                steps.append([0, st[1], AX[st[2]], items])
            else:
                steps.append([1, st[1], [] if st[2] is None else [[cps(x) for x in st[2]]], AX[st[3]]])
        return [5, [enc_table(sp) for sp in prog_specs(c)], steps]
    if k == 'cli':
        lines = (c['samp'] or []) + (c['obs'] or [])
        return [3, conv_table(cells_of(lines)), enc_table(c['spec']),
                [] if c['samp'] is None else [[cps(x) for x in c['samp']]],
                [] if c['obs'] is None else [[cps(x) for x in c['obs']]],
                enc_opts(c['opts']), [cps(x) for x in (c['samp_header'] or [])], [cps(x) for x in (c['obs_header'] or [])]]
    raise ValueError(k)


def decode(tree, c):
    k = c['kind']
    if k == 'del' and c.get('reads'):
        return dec_table(tree[-1][0])
    if k in ('add', 'del', 'cli'):
        r = dec_result(tree, dec_table)
        if k == 'cli' and c.get('via') in ('subprocess', 'command') and isinstance(r, dict):
            # the result went through a BIOM file: all-empty metadata is written as null
            for key in ('omd', 'smd'):
                if r[key] is not None and all(not e for e in r[key]):
                    r[key] = None
            r['file'] = (c.get('io') or {'out': 'json'})['out']
        return r
    if k == 'prog':
        return [[dec_table(t) for t in state] for state in tree]
    if k == 'maptext':
        return {'lines': list(c['lines']), 'parsed': dec_result(tree, dec_mapping)}
    lines = [uncps(x) for x in tree[0]]
    parsed = dec_result(tree[1], dec_mapping)
    rel = dec_mapping(tree[2])
    out = {'lines': lines, 'parsed': parsed}
    if well_formed(c) and parsed != rel:
        out['model_relation_differs_from_model_parse'] = rel
    return out


# ------------------------------------------------------------------ oracle (the property text)
def md_or_empty(md, n):
    return [dict(m) if m else {} for m in md] if md is not None else [{} for _ in range(n)]


def check_same(fails, what, got, want):
    if got != want:
        fails.append('%s changed: %r -> %r' % (what, want, got))


def oracle_add(spec, mapping, axis, obs, fails, label='add_metadata'):
    ids_key, md_key, other_key = ('oids', 'omd', 'smd') if axis == 'observation' else ('sids', 'smd', 'omd')
    ids = spec[ids_key]
    old = md_or_empty(norm_md(spec.get(md_key)), len(ids))
    got = md_or_empty(obs[md_key], len(ids))
    m = dict((i, e) for i, e in mapping)
    for i, id_ in enumerate(ids):
        want = dict(old[i])
        if id_ in m:
            want.update(m[id_])
        if got[i] != want:
            fails.append('%s on %s: id %r has %r, expected %r' % (label, axis, id_, got[i], want))
    n_other = len(spec['sids'] if axis == 'observation' else spec['oids'])
    check_same(fails, 'metadata of the other axis', md_or_empty(obs[other_key], n_other),
               md_or_empty(norm_md(spec.get(other_key)), n_other))


def oracle(c, obs):
    if isinstance(obs, list) and obs and obs[0] == 'crash':
        return ['harness/implementation crashed: %s' % obs]
    k = c['kind']
    fails = []
    if k in ('add', 'del'):
        spec = c['spec']
        valid = c['axis'] in (('sample', 'observation') if k == 'add' else ('sample', 'observation', 'whole'))
        if not valid:
            return [] if obs == ['err', 2] else ['unknown axis %r was not refused: %r' % (c['axis'], obs)]
        if not isinstance(obs, dict):
            return ['%s failed: %r' % (k, obs)]
        check_same(fails, 'observation ids', obs['oids'], list(spec['oids']))
        check_same(fails, 'sample ids', obs['sids'], list(spec['sids']))
        check_same(fails, 'matrix', [[float(v) for v in r] for r in obs['mat']],
                   [[float(v) for v in r] for r in spec['mat']] if spec['sids'] else [[] for _ in spec['oids']])
        if k == 'add':
            oracle_add(spec, c['mapping'], c['axis'], obs, fails)
        else:
            for ax, ids_key, md_key in (('observation', 'oids', 'omd'), ('sample', 'sids', 'smd')):
                n = len(spec[ids_key])
                had = norm_md(spec.get(md_key)) is not None
                old = md_or_empty(norm_md(spec.get(md_key)), n)
                for rax, rid, rkey in c.get('reads', []):
                    if rax == ax and had and rid in spec[ids_key]:
                        old[spec[ids_key].index(rid)].setdefault(rkey, None)     # what the read left behind
                got = md_or_empty(obs[md_key], n)
                if c['axis'] in (ax, 'whole'):
                    want = [{} if c['keys'] is None else {kk: v for kk, v in e.items() if kk not in c['keys']} for e in old]
                else:
                    want = old
                if got != want:
                    fails.append('del_metadata(%r, %s): %s metadata is %r, expected %r' % (c['keys'], c['axis'], ax, got, want))
        return fails[:3]
    if k == 'map':
        if not well_formed(c):
            return []
        want = reference_relation(c)
        got = obs['parsed']
        if not isinstance(got, list):
            return ['a file of the grammar was refused: %r' % (got,)]
        if dict((i, e) for i, e in got) != dict((i, e) for i, e in want) or len(got) != len(want):
            fails.append('mapping file parsed to %r, its rows describe %r' % (got, want))
        return fails
    if k == 'prog':
        return oracle_prog(c, obs)
    if k == 'cli':
        if not c.get('wf'):
            return []
        if not isinstance(obs, dict):
            return ['add-metadata failed on well-formed input: %r' % (obs,)]
        if 'file' in obs and obs['file'] != (c.get('io') or {'out': 'json'})['out']:
            fails.append('add-metadata wrote a %s file, --output-as-json was %s' % (obs['file'], 'given' if c['io']['out'] == 'json' else 'not given'))
        spec = copy.deepcopy(c['spec'])
        check_same(fails, 'observation ids', obs['oids'], list(spec['oids']))
        check_same(fails, 'sample ids', obs['sids'], list(spec['sids']))
        check_same(fails, 'matrix', [[float(v) for v in r] for r in obs['mat']], [[float(v) for v in r] for r in spec['mat']])
        for ax, lines, hdr, ids_key, md_key in (('sample', c['samp'], c['samp_header'], 'sids', 'smd'),
                                                ('observation', c['obs'], c['obs_header'], 'oids', 'omd')):
            n = len(spec[ids_key])
            old = md_or_empty(norm_md(spec.get(md_key)), n)
            got = md_or_empty(obs[md_key], n)
            m = {}
            if lines is not None:
                m = dict(reference_relation({'g': c['g_' + ax], 'sq': True, 'ss': False, 'header': hdr, 'opts': c['opts']}))
            for i, id_ in enumerate(spec[ids_key]):
                want = dict(old[i])
                want.update(m.get(id_, {}))
                if got[i] != want:
                    fails.append('add-metadata on %s: id %r has %r, expected %r' % (ax, id_, got[i], want))
        return fails[:3]
    return []


def oracle_prog(c, obs):
    """reference with value semantics: every table is a plain snapshot, every referenced entry a copy"""
    ref = [{'oids': list(sp['oids']), 'sids': list(sp['sids']), 'mat': [[float(v) for v in r] for r in sp['mat']],
            'omd': norm_md(sp.get('omd')), 'smd': norm_md(sp.get('smd'))} for sp in prog_specs(c)]
    fails = []
    if len(obs) != len(c['steps']):
        return ['the history stopped after %d of %d steps: %r' % (len(obs), len(c['steps']), obs[-1:] )]
    for n, (st, state) in enumerate(zip(c['steps'], obs)):
        if not isinstance(state, list) or (state and state[0] == 'err'):
            return ['step %d %r failed: %r' % (n, st[0], state)]
        ti = st[1]
        if st[0] == 'read':
            t = ref[ti]
            ids_key, md_key = ('oids', 'omd') if st[2] == 'observation' else ('sids', 'smd')
            if t[md_key] is not None and any(t[md_key]):
                t[md_key][t[ids_key].index(st[3])].setdefault(st[4], None)
        elif st[0] == 'add':
            axis, items = st[2], st[3]
            ids_key, md_key = ('oids', 'omd') if axis == 'observation' else ('sids', 'smd')
            m = {}
            for id_, src in items:
                if src[0] == 'lit':
                    m[id_] = copy.deepcopy(src[1])
                else:
                    d = ref[src[1]]
                    k2, mk2 = ('oids', 'omd') if src[2] == 'observation' else ('sids', 'smd')
                    m[id_] = copy.deepcopy(d[mk2][d[k2].index(src[3])]) if d[mk2] is not None else {}
            t = ref[ti]
            cur = md_or_empty(t[md_key], len(t[ids_key]))
            for i, id_ in enumerate(t[ids_key]):
                if id_ in m:
                    cur[i].update(m[id_])
            t[md_key] = cur
        else:
            keys, axis = st[2], st[3]
            t = ref[ti]
            for ax, ids_key, md_key in (('observation', 'oids', 'omd'), ('sample', 'sids', 'smd')):
                if axis in (ax, 'whole'):
                    cur = md_or_empty(t[md_key], len(t[ids_key]))
                    t[md_key] = [{} if keys is None else {kk: v for kk, v in e.items() if kk not in keys} for e in cur]
        for j, (got, want) in enumerate(zip(state, ref)):
            who = 'the receiver' if j == ti else 'table %d (NOT the receiver, which is table %d)' % (j, ti)
            if got['oids'] != want['oids'] or got['sids'] != want['sids']:
                fails.append('after step %d ids of %s changed' % (n, who))
            if [[float(v) for v in r] for r in got['mat']] != (want['mat'] if want['sids'] else [[] for _ in want['oids']]):
                fails.append('after step %d the matrix of %s changed' % (n, who))
            for ids_key, md_key in (('oids', 'omd'), ('sids', 'smd')):
                g = md_or_empty(got[md_key], len(want[ids_key]))
                w = md_or_empty(want[md_key], len(want[ids_key]))
                for i, id_ in enumerate(want[ids_key]):
                    if g[i] != w[i]:
                        fails.append('after step %d (%s on table %d) id %r of %s has %r, expected %r'
                                     % (n, st[0], ti, id_, who, g[i], w[i]))
        if fails:
            break
    return fails[:3]


def convert(kind, v):
    if kind == 'sc':
        return [e.strip() for e in v.split(';')]
    if kind == 'pipe':
        return [[e.strip() for e in y.split(';')] for y in v.split('|')]
    if kind == 'int':
        try:
            return int(v)
        except ValueError:
            return v
    if kind == 'float':
        try:
            return float(v)
        except ValueError:
            return v
    return v


def kind_of(opts, col):
    k = None
    for name in ('sc', 'pipe', 'int', 'float'):      # later options override earlier ones
        if col in opts[name]:
            k = name
    return k


def reference_relation(c):
    """id -> {column: value} straight from the grammar value"""
    g = c['g']
    H = list(c['header']) if c['header'] else list(g['names'])
    out = []
    for kind, body in g['items']:
        if kind != 'r':
            continue
        vals = [sf(x, c['sq'], c['ss']) for x in body]
        d = {}
        for j in range(1, len(H)):
            v = vals[j] if j < len(vals) else ''
            d[H[j]] = convert(kind_of(c['opts'], H[j]), v)
        out.append([vals[0], d])
    return out


def well_formed(c):
    """the grammar's side conditions (the hypotheses of mapping_parse)"""
    g = c['g']
    sq, ss = c['sq'], c['ss']
    u = (lambda x: x.replace('"', '')) if sq else (lambda x: x)
    if any(x.strip() for x in g['pre']):
        return False
    names = g['names']
    if not names or any((not n) or '\t' in n or '"' in n or n != n.strip() for n in names):
        return False
    H = list(c['header']) if c['header'] else names
    if len(set(H[1:])) != len(H[1:]):
        return False
    rows = [b for k, b in g['items'] if k == 'r']
    if not rows:
        return False
    for k, b in g['items']:
        if k == 'b' and b.strip():
            return False
        if k == 'c' and '\n' in b:
            return False
    ids = []
    for cells in rows:
        if not cells or any('\t' in x or '\n' in x for x in cells):
            return False
        first, last = u(cells[0]), u(cells[-1])
        if not first or first[0].isspace() or first[0] == '#' or not last or last[-1].isspace():
            return False
        ids.append(sf(cells[0], sq, ss))
    return len(set(ids)) == len(ids)


# ------------------------------------------------------------------ generation
VALS = ['x', 'y z', 'ü', '', 'k__A; p__B', 7, -3, 0, 0.5, 1.25, -2.0, True, None, ['a', 'b'], ['k__A', ['n', 1]], {'in': 1}]
NEWKEYS = ['new', 'k2', 'Tâx', 'a b']


def md_ids(spec, axis):
    return spec['oids'] if axis == 'observation' else spec['sids']


def axis_keys(spec, axis):
    md = spec.get('omd' if axis == 'observation' else 'smd') or []
    ks = []
    for e in md:
        for k in (e or {}):
            if k not in ks:
                ks.append(k)
    return ks


def gen_spec(rng):
    spec = tables.rand_spec(rng, ttype=None)
    for key in ('omd', 'smd'):
        md = spec.get(key)
        if md is not None and rng.random() < 0.2:
            i = rng.randrange(len(md))
            md[i] = rng.choice([None, {}])
        if md is not None and rng.random() < 0.05:
            spec[key] = [None for _ in md]
        md = spec.get(key)
        if md is not None and rng.random() < 0.2:
            # a key stored WITH the value None (JSON null, or what reading a missing key leaves behind)
            e = rng.choice(md)
            if e:
                e[rng.choice(list(e) + ['nul'])] = None
    return spec


def gen_add(rng):
    spec = gen_spec(rng)
    axis = rng.choice(['sample', 'observation'])
    ids = list(spec['sids'] if axis == 'sample' else spec['oids'])
    keys = axis_keys(spec, axis)
    unknown = ['zz%d' % i for i in range(2)] + [ids[0] + ' ', ids[0].upper() + '_']
    r = rng.random()
    if r < 0.06:
        chosen = []
    elif r < 0.26:
        chosen = [x for x in ids if rng.random() < 0.6] or ids[:1]          # subset
    elif r < 0.38:
        chosen = list(ids)                                                  # exactly the ids
    elif r < 0.55:
        chosen = list(ids) + [x for x in unknown if rng.random() < 0.6]     # superset
    elif r < 0.63:
        chosen = [x for x in unknown if rng.random() < 0.7]                 # unknown ids only
    else:
        chosen = [x for x in ids + unknown if rng.random() < 0.55]          # partial overlap
    rng.shuffle(chosen)
    mapping = []
    for i in dict.fromkeys(chosen):
        e = {}
        for _ in range(rng.choice([0, 1, 1, 2, 3])):
            k = rng.choice(keys + NEWKEYS) if keys else rng.choice(NEWKEYS)
            e[k] = copy.deepcopy(rng.choice(VALS))
        mapping.append([i, e])
    if rng.random() < 0.04:
        axis = 'bogus'
    return {'kind': 'add', 'spec': spec, 'mapping': mapping, 'axis': axis}


def gen_del(rng):
    spec = gen_spec(rng)
    axis = rng.choice(['sample', 'observation', 'whole', 'whole'])
    present = axis_keys(spec, 'sample') + axis_keys(spec, 'observation')
    r = rng.random()
    if r < 0.15:
        keys = None
    else:
        keys = [k for k in dict.fromkeys(present) if rng.random() < 0.5]
        if rng.random() < 0.3:
            keys.append('absent')
        if rng.random() < 0.1:
            keys = keys + keys[:1]
        if rng.random() < 0.2:
            keys = list(dict.fromkeys(present))         # everything: the axis collapses to None
    if rng.random() < 0.04:
        axis = 'bogus'
    c = {'kind': 'del', 'spec': spec, 'keys': keys, 'axis': axis}
    if axis != 'bogus' and rng.random() < 0.4:
        # history: a key some id does not have is READ first (default-None entries materialise it)
        reads = []
        for _ in range(rng.randint(1, 3)):
            ax = rng.choice(['sample', 'observation'])
            pool = axis_keys(spec, ax) + ['pH', 'grp']
            key = rng.choice(pool)
            reads.append([ax, rng.choice(md_ids(spec, ax)), key])
            if keys is not None and rng.random() < 0.8 and key not in keys:
                keys.append(key)
        c['reads'] = reads
    return c


COLS = ['taxonomy', 'pH', 'Days', 'Path ways', 'Désc', 'BarcodeSequence', 'x', 'y']
CELLS = {'sc': ['k__A; p__B', 'a;b ;c', 'Root', '', ' k__A ;p__B', 'k__A\x0cx; p\x85B'], 'pipe': ['x;y;z|x;y;w', 'a|b', 'one', ''],
         'int': ['3', '-12', '007', 'abc', '', '4.5', '1_000'], 'float': ['6.5', '7.25', '-0.5', '3', '1e2', 'abc', ''],
         None: ['foo', 'a b', 'é', 'x"y', '12', '', 'NA', "it's", 'a#b',
                # characters at which str.splitlines (not file iteration) cuts a line: they belong to the field
                'a\x0cb', 'x\x85y', 'p\u2028q', 'k\x1cv', 'm\x0bn \u2029o', 'r\x1ds\x1et']}


def decorate(rng, text, edge):
    """quoting and space padding of a cell; edge cells of a row get no outer blanks"""
    r = rng.random()
    if r < 0.2:
        text = '"' + text + '"'
    elif r < 0.25:
        text = text[:1] + '"' + text[1:]
    if not edge and rng.random() < 0.25:
        text = rng.choice([' ', '  ']) + text + rng.choice(['', ' '])
    return text


def gen_grammar(rng, ids, strict=True):
    ncol = rng.randint(1, 5)
    names = ['SampleID'] + rng.sample(COLS, ncol - 1)
    opts = {'sc': [], 'pipe': [], 'int': [], 'float': []}
    kinds = {}
    for n in names[1:]:
        k = rng.choice([None, None, 'sc', 'pipe', 'int', 'float'])
        kinds[n] = k
        if k:
            opts[k].append(n)
    if names[1:] and rng.random() < 0.15:       # a column named by two options: the later option wins
        n = rng.choice(names[1:])
        opts['sc'].append(n)
        opts['float'].append(n)
        kinds[n] = 'float'
    items = []
    for id_ in ids:
        while rng.random() < 0.25:
            items.append(rng.choice([['c', ' a comment\twith tab'], ['c', ''], ['b', ''], ['b', '  '], ['b', '\t']]))
        width = rng.choice([ncol, ncol, ncol, rng.randint(1, ncol), ncol + 1])
        cells = [id_]
        for j in range(1, width):
            kind = kinds.get(names[j]) if j < ncol else None
            cells.append(rng.choice(CELLS[kind]))
        while len(cells) > 1 and cells[-1].strip() == '':
            cells.pop()                          # a row is written without trailing empty cells (short row)
        cells = [decorate(rng, x, j == 0 or j == len(cells) - 1) for j, x in enumerate(cells)]
        items.append(['r', cells])
    g = {'pre': [rng.choice(['', ' ', '\t'])] * rng.choice([0, 0, 1, 2]), 'names': names, 'items': items}
    header = None
    if rng.random() < 0.3:
        k = rng.randint(1, ncol)
        header = ['ID'] + ['c%d' % j if rng.random() < 0.5 else names[j] for j in range(1, k)]
        for n in header[1:]:
            if n.startswith('c') and rng.random() < 0.3:
                opts['sc'].append(n)
    return g, opts, header


def gen_map(rng):
    n = rng.randint(1, 4)
    ids = ['S%d' % i if rng.random() < 0.7 else rng.choice(['sam ple', 'é1', '样本', 's.1', '12']) + str(i) for i in range(n)]
    g, opts, header = gen_grammar(rng, ids)
    sq, ss = rng.random() < 0.7, rng.random() < 0.25
    via = 'lines' if ss else rng.choice(['lines', 'handle', 'path'])
    return {'kind': 'map', 'g': g, 'sq': sq, 'ss': ss, 'header': header, 'opts': opts, 'via': via}


def gen_maptext(rng):
    c = gen_map(rng)
    lines = render(c['g'])
    for _ in range(rng.randint(1, 2)):
        m = rng.choice(['no_header', 'data_first', 'dup_id', 'only_comments', 'nl', 'lead_tab', 'quotes_only', 'hash_id',
                        'two_headers', 'empty', 'trail_tabs', 'edge_blanks'])
        if m == 'no_header':
            lines = [x for x in lines if not x.startswith('#')]
        elif m == 'data_first' and len(lines) > 1:
            lines = lines[1:2] + lines[:1] + lines[2:]
        elif m == 'dup_id' and lines:
            lines.append(lines[-1])
        elif m == 'only_comments':
            lines = [x for x in lines if x.startswith('#')]
        elif m == 'nl':
            lines = [x + '\n' for x in lines]
        elif m == 'lead_tab':
            lines.append('\tlonely\tcell')
        elif m == 'quotes_only':
            lines.insert(rng.randint(0, len(lines)), '""')
        elif m == 'hash_id':
            lines.append('"#quoted hash"\t1\t2')
        elif m == 'two_headers':
            lines.insert(0, '#first\theader')
        elif m == 'empty':
            lines = []
        elif m == 'trail_tabs':
            lines = [x + '\t\t' for x in lines]
        elif m == 'edge_blanks':
            lines = [' ' + x + ' ' for x in lines]
    return {'kind': 'maptext', 'lines': lines, 'sq': c['sq'], 'ss': c['ss'], 'header': c['header'], 'opts': c['opts']}


def gen_cli(rng, via=None, hdf5=False):
    spec = gen_spec(rng) if not hdf5 else tables.rand_spec(rng, md=rng.choice(['none', 'group', 'text', 'obs', 'samp']), ttype=None)
    c = {'kind': 'cli', 'spec': spec, 'samp': None, 'obs': None, 'samp_header': None, 'obs_header': None,
         'opts': {'sc': [], 'pipe': [], 'int': [], 'float': []}, 'via': via or rng.choice(['handle', 'lines', 'path']), 'wf': True}
    which = rng.choice(['sample', 'observation', 'both', 'both'])
    if rng.random() < 0.03:
        which = 'none'
    for ax, ids_key in (('sample', 'sids'), ('observation', 'oids')):
        if which not in (ax, 'both'):
            continue
        ids = [i for i in spec[ids_key] if hdf5 or rng.random() < 0.7] + (['unknown1'] if rng.random() < 0.4 else [])
        ids = [i for i in dict.fromkeys(ids) if '"' not in i and '\t' not in i and i == i.strip() and not i.startswith('#')]
        if not ids:
            ids = ['unknown0']
        rng.shuffle(ids)
        g, opts, header = gen_grammar(rng, ids)
        for k in opts:
            c['opts'][k] += [x for x in opts[k] if x not in c['opts'][k]]
        c['g_' + ax] = g
        c['samp' if ax == 'sample' else 'obs'] = render(g)
        c['samp_header' if ax == 'sample' else 'obs_header'] = header
    # the conversions of the two files share one option set: recompute well-formedness with the union
    for ax, hdr in (('sample', c['samp_header']), ('observation', c['obs_header'])):
        if 'g_' + ax in c and not well_formed({'g': c['g_' + ax], 'sq': True, 'ss': False, 'header': hdr, 'opts': c['opts']}):
            c['wf'] = False
    if which == 'none':
        c['wf'] = False
    if c['via'] in ('subprocess', 'command'):
        c['io'] = {'src': 'json', 'out': 'json'}
        if hdf5 and hdf5_ok(spec):
            c['io']['src'] = rng.choice(['json', 'hdf5'])
            plain = all('"' not in i and i == i.strip() and not i.startswith('#') for i in spec['oids'] + spec['sids'])
            full_rows = all(len(b) >= len(c['g_' + ax]['names']) if not c[hk] else True
                            for ax, hk in (('sample', 'samp_header'), ('observation', 'obs_header')) if 'g_' + ax in c
                            for kk, b in c['g_' + ax]['items'] if kk == 'r')
            names = [n for ax in ('sample', 'observation') if 'g_' + ax in c for n in c['g_' + ax]['names']] + \
                    (c['samp_header'] or []) + (c['obs_header'] or [])
            special = any(n in ('taxonomy', 'KEGG_Pathways', 'collapsed_ids') for n in names)
            # an HDF5 file carries a column only if all its values have one type: text columns only
            if plain and c['wf'] and not any(c['opts'].values()) and not special:
                c['io']['out'] = 'hdf5'
    if c['via'] in ('subprocess', 'command'):
        # the command line joins names with ',' and needs a table that survives JSON
        names = [n for k in c['opts'] for n in c['opts'][k]] + (c['samp_header'] or []) + (c['obs_header'] or [])
        if any(',' in n for n in names) or which == 'none':
            return gen_cli(rng, via, hdf5)
    return c


def gen_prog(rng):
    scenario = rng.choice(['same_object', 'same_object', 'other_table', 'siblings', 'siblings', 'mixed'])
    derive = None
    if scenario == 'siblings':
        parent = tables.rand_spec(rng, min_c=2, md='group', ttype=None)
        parent['smd'] = [{'g': rng.choice(['x', 'y'])} for _ in parent['sids']]
        parent['smd'][0]['g'], parent['smd'][-1]['g'] = 'x', 'y'
        parent['omd'] = [{'tax': rng.choice(['a', 'b']), 'n': i} for i in range(len(parent['oids']))]
        specs, derive = [parent, gen_spec(rng)], 'g'
    else:
        recv = gen_spec(rng)
        if rng.random() < 0.6:
            recv[rng.choice(['omd', 'smd'])] = None         # the "axis had no metadata" branch builds the tuple
        donor = tables.rand_spec(rng, md=rng.choice(['text', 'num', 'tax', 'group']), ttype=None, opfx='d', spfx='r')
        specs = [recv, donor]
    ntab = len(specs) + (2 if derive else 0)
    all_specs = specs + (partition_specs(specs[0], derive) if derive else [])

    def ref_src(exclude=None):
        # never the metadata objects of the very axis the call updates: `d.update` then reads entries
        # that the same call has already changed (caller-side aliasing, outside the property)
        cands = [(j, ax) for j in range(ntab) for ax in ('observation', 'sample')
                 if norm_md(all_specs[j].get('omd' if ax == 'observation' else 'smd')) is not None
                 and (j, ax) != exclude]
        if not cands:
            return ['lit', {'k0': 'v'}]
        j, ax = rng.choice(cands)
        return ['ref', j, ax, rng.choice(md_ids(all_specs[j], ax))]

    steps = []
    if scenario == 'siblings':
        x = len(specs)                        # first sibling
        ax = rng.choice(['observation', 'observation', 'sample'])
        ids = md_ids(all_specs[x], ax)
        steps.append(['add', rng.choice([x, x + 1, 0]), ax if ax == 'observation' else 'observation',
                      [[rng.choice(all_specs[0]['oids']), ['lit', {'tax': 'CHANGED', 'new': 1}]]]])
        if rng.random() < 0.5:
            steps.append(['del', rng.choice([x, x + 1, 0]), [rng.choice(['tax', 'n', 'g'])], rng.choice(['observation', 'whole'])])
    else:
        ti = 0
        ax = rng.choice(['observation', 'sample'])
        ids = md_ids(all_specs[ti], ax)
        src = ref_src((ti, ax))
        chosen = [i for i in ids if rng.random() < 0.7] or ids[:1]
        items = [[i, list(src) if rng.random() < 0.8 else ref_src((ti, ax))] for i in chosen]
        if rng.random() < 0.3:
            items.append(['zz0', list(src)])
        steps.append(['add', ti, ax, items])
        # second step names only one of them
        steps.append(['add', ti, ax, [[chosen[0], ['lit', {'barcode': 'ACGT', rng.choice(NEWKEYS): 5}]]]])
        if scenario in ('other_table', 'mixed') and src[0] == 'ref':
            steps.append(['add', src[1], src[2], [[src[3], ['lit', {'late': True}]]]])
    if rng.random() < 0.35:
        # read a key an id lacks, then delete that key: nothing of it may stay behind
        ti = rng.randrange(ntab)
        ax = rng.choice(['observation', 'sample'])
        key = rng.choice(['tax', 'g', 'k', 'barcode', 'pH'])
        for id_ in rng.sample(md_ids(all_specs[ti], ax), min(2, len(md_ids(all_specs[ti], ax)))):
            steps.append(['read', ti, ax, id_, key])
        steps.append(['del', ti, [key], rng.choice([ax, 'whole'])])
    while len(steps) < 4 and rng.random() < 0.5:
        ti = rng.randrange(ntab)
        ax = rng.choice(['observation', 'sample'])
        ids = md_ids(all_specs[ti], ax)
        if rng.random() < 0.6:
            steps.append(['add', ti, ax, [[rng.choice(ids), ref_src((ti, ax)) if rng.random() < 0.5 else
                                           ['lit', {rng.choice(NEWKEYS + ['g', 'tax', 'k']): copy.deepcopy(rng.choice(VALS))}]]
                                          for _ in range(rng.randint(1, 2))]])
            steps[-1][3] = [list(x) for x in dict((i, tuple(s_)) for i, s_ in steps[-1][3]).items()]
            steps[-1][3] = [[i, list(s_)] for i, s_ in steps[-1][3]]
        else:
            steps.append(['del', ti, rng.choice([None, ['barcode'], ['g', 'k'], ['tax', 'new']]), rng.choice(['sample', 'observation', 'whole'])])
    return {'kind': 'prog', 'specs': specs, 'derive': derive, 'steps': steps, 'scenario': scenario}


def gen(rng, tier):
    n = 1 if tier == 'quick' else 10
    for _ in range(220 * n):
        yield gen_add(rng)
    for _ in range(160 * n):
        yield gen_del(rng)
    for _ in range(200 * n):
        yield gen_map(rng)
    for _ in range(80 * n):
        yield gen_maptext(rng)
    for _ in range(100 * n):
        yield gen_cli(rng)
    for _ in range(150 * n):
        yield gen_prog(rng)
    # the real command (click wrapper + option forwarding), in process, in every tier
    for i in range(60 * n):
        yield gen_cli(rng, 'command', hdf5=(i % 3 == 0))
    if tier == 'thorough':
        for _ in range(40):
            yield gen_cli(rng, 'subprocess')


def nontrivial(c):
    k = c['kind']
    if k == 'add':
        ids = c['spec']['sids'] if c['axis'] == 'sample' else c['spec']['oids']
        return any(i in ids and e for i, e in c['mapping'])
    if k == 'del':
        if c['axis'] not in ('sample', 'observation', 'whole'):
            return False
        present = (axis_keys(c['spec'], 'sample') if c['axis'] != 'observation' else []) + \
                  (axis_keys(c['spec'], 'observation') if c['axis'] != 'sample' else [])
        return bool(present) and (c['keys'] is None or any(x in present for x in c['keys']))
    if k == 'map':
        return well_formed(c)
    if k == 'maptext':
        return len(c['lines']) > 1
    if k == 'prog':
        return len(c['steps']) >= 2 or bool(c.get('derive'))
    return bool(c.get('wf'))


def classify(c):
    k = c['kind']
    tags = [k]
    if k in ('add', 'del', 'cli'):
        spec = c['spec']
        tags.append('md:%s/%s' % ('obs' if norm_md(spec.get('omd')) else '-', 'samp' if norm_md(spec.get('smd')) else '-'))
        try:
            tags.append('layout:' + tables.layout_info(tables.build(spec)))
        except Exception:
            tags.append('layout:unbuildable')
    if k == 'add':
        ids = spec['sids'] if c['axis'] == 'sample' else spec['oids']
        mids = [i for i, _ in c['mapping']]
        tags.append('axis:' + c['axis'])
        tags.append('mapping:' + ('empty' if not mids else 'superset' if set(ids) < set(mids) else 'exact' if set(ids) == set(mids)
                                  else 'subset' if set(mids) < set(ids) else 'disjoint' if not set(ids) & set(mids) else 'overlap'))
    if k == 'del':
        tags.append('axis:' + c['axis'])
        tags.append('keys:' + ('None' if c['keys'] is None else str(min(len(c['keys']), 3))))
        if c.get('reads'):
            tags.append('del:after-read')
        if any(v is None for md in (c['spec'].get('omd'), c['spec'].get('smd')) for e in (md or []) for v in (e or {}).values()):
            tags.append('del:none-valued-key')
    if k in ('map', 'maptext'):
        tags.append('strip_f:%s%s' % ('q' if c['sq'] else '-', 's' if c['ss'] else '-'))
        tags.append('override' if c['header'] else 'file-header')
    if k == 'map':
        tags.append('wf' if well_formed(c) else 'not-wf')
        tags.append('via:' + c['via'])
        for name in ('sc', 'pipe', 'int', 'float'):
            if c['opts'][name]:
                tags.append('col:' + name)
        if any(len(b) < len(c['g']['names']) for kk, b in c['g']['items'] if kk == 'r'):
            tags.append('short-row')
    if k == 'prog':
        tags.append('prog:' + c.get('scenario', '?'))
        tags.append('steps:%d' % len(c['steps']))
        if any(st[0] == 'read' for st in c['steps']):
            tags.append('prog:read-then-del')
        if any(src[0] == 'ref' for st in c['steps'] if st[0] == 'add' for _, src in st[3]):
            tags.append('prog:object-reference')
    if k == 'cli':
        tags.append('files:%s%s' % ('s' if c['samp'] is not None else '-', 'o' if c['obs'] is not None else '-'))
        tags.append('via:' + c['via'])
        if c.get('io'):
            tags.append('cli-io:%s->%s' % (c['io']['src'], c['io']['out']))
        for name, flag in (('sc', 'sc'), ('pipe', 'pipe'), ('int', 'int'), ('float', 'float')):
            if c['opts'][name] and c.get('via') in ('command', 'subprocess'):
                tags.append('cli-opt:' + flag)
        if c.get('via') in ('command', 'subprocess') and (c['samp_header'] or c['obs_header']):
            tags.append('cli-opt:header')
    return tags


def shrink(c):
    k = c['kind']
    if k == 'add':
        m = c['mapping']
        for i in range(len(m)):
            yield dict(c, mapping=m[:i] + m[i + 1:])
        for i, (id_, e) in enumerate(m):
            for kk in list(e):
                e2 = {a: b for a, b in e.items() if a != kk}
                yield dict(c, mapping=m[:i] + [[id_, e2]] + m[i + 1:])
    if k == 'del' and c['keys']:
        for i in range(len(c['keys'])):
            yield dict(c, keys=c['keys'][:i] + c['keys'][i + 1:])
    if k == 'del' and c.get('reads'):
        for i in range(len(c['reads'])):
            yield dict(c, reads=c['reads'][:i] + c['reads'][i + 1:])
    if k in ('add', 'del', 'cli'):
        spec = c['spec']
        if spec.get('layout') and spec['layout'] != ['dense']:
            yield dict(c, spec=dict(spec, layout=['dense']))
    if k == 'maptext':
        ls = c['lines']
        for i in range(len(ls)):
            yield dict(c, lines=ls[:i] + ls[i + 1:])
    if k == 'prog':
        st = c['steps']
        for i in range(len(st)):
            yield dict(c, steps=st[:i] + st[i + 1:])
        for i, x in enumerate(st):
            if x[0] == 'add' and len(x[3]) > 1:
                for j in range(len(x[3])):
                    yield dict(c, steps=st[:i] + [[x[0], x[1], x[2], x[3][:j] + x[3][j + 1:]]] + st[i + 1:])
        for j, sp in enumerate(c['specs']):
            if sp.get('layout') and sp['layout'] != ['dense']:
                yield dict(c, specs=c['specs'][:j] + [dict(sp, layout=['dense'])] + c['specs'][j + 1:])
    if k == 'map':
        items = c['g']['items']
        for i in range(len(items)):
            yield dict(c, g=dict(c['g'], items=items[:i] + items[i + 1:]))


SIGNATURES = {}
