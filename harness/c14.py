"""C14: subsetting while reading equals reading everything and then filtering.

Readers under test (all on files / text written by the library itself):
  h5        Table.from_hdf5(h, ids=, axis=)                              drops emptied other-axis vectors
  h5nomd    Table.from_hdf5(h, ids=, axis=, subset_with_metadata=False)  ids + matrix only, nothing dropped
  cmd_h5    biom.cli.table_subsetter._subset_table(path, None, axis, ids)
  json      parse_table(json_text, ids=, axis=)                          drops emptied other-axis vectors
  cmd_json  _subset_table(None, text, axis, ids) on four serialisations of the same document
  h5handle  parse_table(open h5py.File, ids=, axis=)  (public path into the default variant)
  h5all     Table.from_hdf5(h)  (ties the model's reading of the stored arrays to the library)
The HDF5 readers receive the request as list / tuple / set / dict keys view / generator / numpy array.
  cli_h5    the real command: biom.cli.cli.main(['subset-table', '-i', file, '-a', axis, '-s', ids_file, '-o', out])
  cli_json  the same with '-j' on each serialisation; the ids file is written in three styles
"""
import atexit
import datetime
import itertools
import json
import os
import shutil
import struct
import tempfile

import h5py
import numpy as np

from biom import Table, parse_table
from biom.cli.table_subsetter import _subset_table

from . import tables as T
from .core import jhash

ID = 'C14'
RULE = ('tables from tables.rand_spec (1..5 x 1..5, layout recipes, all id alphabets, metadata kinds, generated_by with '
        'commas/quotes/brackets) written by to_hdf5 / to_json; for each axis EVERY non-empty subset when the axis has <= 4 ids, '
        '8 random subsets beyond, ids handed over in shuffled order; each subset through from_hdf5 default, '
        'subset_with_metadata=False, _subset_table on the HDF5 path, parse_table(ids=) on the JSON text and _subset_table on the '
        'JSON text as written, json.dumps default, indent=2 and separators=(",",":"); plus requests naming an unknown id '
        '(an unrelated string, a stored id of maximal length with extra characters appended, a proper prefix, another case, an id of the other axis), one '
        'whole read per file, and a stream of tables with 9..12 ids on one axis (kept indices >= 8, two-digit indices) with small subsets; '
        'parse_table on an open h5py.File as a further reader; the HDF5 readers get the request as list / tuple / set / dict keys '
        'view / generator / numpy str or object array in rotation; 3 in 10 tables carry explicitly stored zeros (zeroed through '
        'matrix_data before writing); the REAL COMMAND (biom.cli.cli.main(["subset-table", ...]) in process, ids read from a file written as plain lines / with '
        'extra tab-separated columns / with # comment lines) on 3-5 requests per axis and file, HDF5 and JSON input, plus a stream of '
        'tables whose ids contain blanks ("gut 2" next to "gut") with every subset through the command; '
        'JSON documents in which only some ids carry metadata (json readers only: the HDF5 writer refuses them); '
        '3 in 10 tables get ] [ } { quotes, backslashes and separators spliced into ids and metadata strings; '
        'a metadata key named "columns" (known finding F35) reaches the JSON slicer only in tagged witness cases; '
        'non-trivial = axis with >= 2 ids and a proper subset, or an unknown-id request; distinct by case hash')
TRUSTED = ['hand-written models coq/Model/Subset.v (array level) and coq/Model/Slicer.v (text level) tied to biom/table.py, '
           'biom/parse.py and biom/cli/table_subsetter.py by this correspondence run',
           'h5py / numpy / scipy return the stored arrays and build csr/csc matrices as documented',
           'json.loads / json.dumps of the standard library (the model has its own reader/printer, compared text for text)',
           'extraction (ExtrOcamlBasic only) + ocaml/driver_tail.ml, cross-checked against vm_compute on a sample']
ASSUMPTIONS = ['files are the ones the library writes (both stored matrix views present and agreeing; the model checks this per file)',
               'requests are sets of text ids (no repeated id); ids and values are in the C01 domain',
               'the output of subset-table is judged by loading it with parse_table']

from . import regen as _regen
regenerate = _regen.hook(TRUSTED, ['slicer'])   # py2v (string mode): regenerate coq/Gen/SlicerGen.v from biom/parse.py first

AX = {'observation': 0, 'sample': 1}
OTHER = {'observation': 'sample', 'sample': 'observation'}
SERS = ['lib', 'dumps', 'indent', 'compact']
GENS = ['g', 'a, b', 'say "hi", ok', 'x]y[z', '{k}: v', 'back\\slash', 'tab\there']
HEADER_KEYS = ['id', 'format', 'format_url', 'type', 'generated_by', 'date', 'matrix_type', 'matrix_element_type']
DROPS = ('h5', 'h5handle', 'cmd_h5', 'cli_h5', 'json')          # variants that drop other-axis vectors emptied by the subset
REFUSES = ('h5', 'h5handle', 'h5nomd', 'cmd_h5', 'cmd_json', 'cli_h5', 'cli_json')
CTYPES = ['list', 'tuple', 'set', 'dictkeys', 'generator', 'array', 'objarray']
SLICER = ('cmd_json', 'cli_json')        # observable = the text written
IDS_STYLES = ['plain', 'cols', 'comments']
UNKNOWN = 'no-such-id'

_TMP = tempfile.mkdtemp(prefix='biomv-c14-')
atexit.register(lambda: shutil.rmtree(_TMP, ignore_errors=True))
_ART = {}
_DATE = datetime.datetime(2026, 10, 1, 12, 0, 0)      # fixed, so that a rebuilt artefact is the same text


# ---------------------------------------------------------------- artefacts of one spec
def art(c):
    """files and texts the library writes for the case's table (cached)"""
    key = jhash([c['spec'], c.get('gen', 'g')])
    if key in _ART:
        return _ART[key]
    if len(_ART) > 6000:        # far above what one run generates; entries are small
        for k in list(_ART)[:3000]:
            a = _ART.pop(k)
            try:
                os.remove(a['path'])
            except OSError:
                pass
    spec = c['spec']
    zeroed = spec.get('zeroed') or []
    if not spec['oids'] or not spec['sids']:
        # a table with one axis without ids, as a filter that keeps nothing leaves it: built with one id on
        # that axis, which is then filtered out
        pad = dict(spec)
        if not spec['sids']:
            pad.update(sids=['gone'], mat=[[1.0] for _ in spec['oids']], smd=None)
            t = T.build(pad).filter(['gone'], axis='sample', invert=True, inplace=False)
        else:
            pad.update(oids=['gone'], mat=[[1.0 for _ in spec['sids']]], omd=None)
            t = T.build(pad).filter(['gone'], axis='observation', invert=True, inplace=False)
    elif zeroed:
        # entries that are stored but hold 0.0: built non-zero, then zeroed through matrix_data
        pre = [list(row) for row in spec['mat']]
        for r, k in zeroed:
            pre[r][k] = 1.0
        t = T.build(dict(spec, mat=pre))
        for r, k in zeroed:
            t.matrix_data[r, k] = 0.0
    else:
        t = T.build(spec)
    layout = T.layout_info(t)            # before the writers touch the representation
    gen = c.get('gen', 'g')
    path = os.path.join(_TMP, key[:24] + '.biom')
    js = t.to_json(gen, creation_date=_DATE)
    doc = json.loads(js)
    a = {'path': None, 'layout': layout, 'stored': [],
         'text': {'lib': js, 'dumps': json.dumps(doc), 'indent': json.dumps(doc, indent=2),
                  'compact': json.dumps(doc, separators=(',', ':'))}}
    try:
        with h5py.File(path, 'w') as f:
            t.to_hdf5(f, gen, creation_date=_DATE)
    except ValueError:
        # partially empty metadata cannot be written to HDF5 ("inconsistent metadata categories"):
        # such a table exists as a JSON document only
        if c.get('kind') not in ('json', 'cmd_json'):
            raise
        path = None
    if path:
        a['path'] = path
        with h5py.File(path, 'r') as f:
            full = Table.from_hdf5(f)
            a['h5_all'] = T.snapshot(full)
            raw = {}
            for ax in ('observation', 'sample'):
                g = f[ax]
                raw[ax] = {'ids': [i.decode('utf8') if isinstance(i, bytes) else str(i) for i in g['ids'][:]],
                           'indptr': [int(x) for x in g['matrix/indptr'][:]],
                           'indices': [int(x) for x in g['matrix/indices'][:]],
                           'data': [float(x) for x in g['matrix/data'][:]]}
            a['raw'] = raw
            for ax in ('observation', 'sample'):
                r = raw[ax]
                if any(v == 0 for v in r['data']):
                    a['stored'].append('file:%s-view-holds-stored-zero' % ax)
                segs = [r['indices'][r['indptr'][i]:r['indptr'][i + 1]] for i in range(len(r['indptr']) - 1)]
                if any(sg != sorted(sg) for sg in segs):
                    a['stored'].append('file:%s-view-unsorted-indices' % ax)
    a['json_all'] = T.snapshot(parse_table(js))
    _ART[key] = a
    return a


def coll(ctype, ids):
    """the request as the collection type the case names"""
    if ctype == 'tuple':
        return tuple(ids)
    if ctype == 'set':
        return set(ids)
    if ctype == 'dictkeys':
        return {i: 1 for i in ids}.keys()
    if ctype == 'generator':
        return (i for i in ids)
    if ctype == 'array':
        return np.array(list(ids)) if ids else np.array([], dtype='U1')
    if ctype == 'objarray':
        return np.array(list(ids), dtype=object)
    return list(ids)


# ---------------------------------------------------------------- the real command
def addressable(i):
    """ids the ids file of subset-table can carry (one id per line, first tab-separated column, '#' = comment)"""
    return bool(i) and i == i.strip() and not any(ch in i for ch in '\t\n\r') and not i.startswith('#')


def ids_file_text(c):
    """the text of the -s file for a case, in the style the case names"""
    style, ids = c.get('idsfile', 'plain'), c['ids']
    if style == 'plain':
        return ''.join(i + '\n' for i in ids)
    if style == 'cols':
        return ''.join('%s\tcolumn %d\tx\n' % (i, k) for k, i in enumerate(ids))
    out = ['#SampleID\tDescription\n']
    for k, i in enumerate(ids):
        out.append(i + ('\tsome text # not a comment\n' if k % 2 else '\n'))
        if k == 0:
            out.append('# a comment between two ids\n')
    return ''.join(out)


_SEQ = [0]


def run_cli(c, a):
    """`biom subset-table` in process, as the console script runs it.  The click group closes fd 1 on exit, so
    fds 0-2 are saved and restored around the call (same device as harness/c13.py)."""
    from biom.cli import cli
    _SEQ[0] += 1
    stem = os.path.join(_TMP, 'cli%d' % _SEQ[0])
    idsf, out = stem + '.ids.txt', stem + '.out.biom'
    with open(idsf, 'w', encoding='utf-8', newline='') as f:
        f.write(ids_file_text(c))
    if c['kind'] == 'cli_h5':
        args = ['subset-table', '-i', a['path']]
    else:
        inp = stem + '.in.json'
        with open(inp, 'w', encoding='utf-8', newline='') as f:
            f.write(a['text'][c['ser']])
        args = ['subset-table', '-j', inp]
    args += ['-a', c['axis'], '-s', idsf, '-o', out]
    saved = [os.dup(k) for k in (0, 1, 2)]
    err = None
    try:
        try:
            cli.main(args=args, standalone_mode=False)
        except BaseException as e:          # click may raise SystemExit / Abort
            err = e
    finally:
        for k, fd in enumerate(saved):
            os.dup2(fd, k)
            os.close(fd)
    try:
        if err is not None:
            return ['err', T.err_code(err)]
        if c['kind'] == 'cli_h5':
            with h5py.File(out, 'r') as f:
                return ['ok', T.norm_snap(T.snapshot(Table.from_hdf5(f)))]
        with open(out, encoding='utf-8', newline='') as f:
            return ['text', f.read()]
    finally:
        for fn in (idsf, out, stem + '.in.json'):
            try:
                os.remove(fn)
            except OSError:
                pass


# ---------------------------------------------------------------- implementation
def run_impl(c):
    try:
        a = art(c)
    except Exception as e:  # pragma: no cover - the library cannot write the table: not this property
        return ['crash', type(e).__name__, str(e)[:200]]
    k, axis, ids = c['kind'], c.get('axis'), list(c.get('ids', []))
    ct = c.get('ctype', 'list')
    try:
        if k == 'h5all':
            return {'table': T.norm_snap(a['h5_all']), 'wf': True}
        if k in ('h5', 'h5nomd'):
            with h5py.File(a['path'], 'r') as f:
                if k == 'h5':
                    r = Table.from_hdf5(f, ids=coll(ct, ids), axis=axis)
                else:
                    r = Table.from_hdf5(f, ids=coll(ct, ids), axis=axis, subset_with_metadata=False)
                return ['ok', T.norm_snap(T.snapshot(r))]
        if k == 'h5handle':
            with h5py.File(a['path'], 'r') as f:
                r = parse_table(f, ids=coll(ct, ids), axis=axis)
                return ['ok', T.norm_snap(T.snapshot(r))]
        if k == 'cmd_h5':
            r, fmt = _subset_table(a['path'], None, axis, coll(ct, ids))
            return ['ok', T.norm_snap(T.snapshot(r))]
        if k == 'json':
            r = parse_table(a['text']['lib'], ids=coll(ct, ids), axis=axis)
            return ['ok', T.norm_snap(T.snapshot(r))]
        if k == 'cmd_json':
            pieces, fmt = _subset_table(None, a['text'][c['ser']], axis, ids)
            return ['text', '\n'.join(pieces)]
        if k in ('cli_h5', 'cli_json'):
            return run_cli(c, a)
    except Exception as e:
        return ['err', T.err_code(e)]
    raise ValueError(k)


# ---------------------------------------------------------------- wire
class ValueCoder(T.Coder):
    """C14 never computes with matrix values (it only moves them and asks whether they are zero), so a value crosses
    the wire as a small integer label: 0.0 <-> 0, the k-th smallest distinct non-zero value of the case's table <-> k.
    Injective per case, and open to magnitudes such as 4e-12, 1e-300 or the smallest denormal that are not
    multiples of 1/64."""

    def __init__(self, universe, values):
        T.Coder.__init__(self, universe)
        self.vals = sorted(set(float(v) for v in values if v != 0))
        self.vcode = {v: k + 1 for k, v in enumerate(self.vals)}

    def val(self, v):
        v = float(v)
        return 0 if v == 0 else self.vcode[v]

    def unval(self, k):
        return 0.0 if k == 0 else self.vals[k - 1]


def _coder(c):
    return ValueCoder(T.spec_universe(c['spec']) + list(c.get('ids', [])), [v for row in c['spec']['mat'] for v in row])


def _file_tree(cd, a):
    allr = a['h5_all']

    def ax(name, mdkey):
        r = a['raw'][name]
        md = allr[mdkey]
        return [[cd.id(i) for i in r['ids']], r['indptr'], r['indices'], [cd.val(v) for v in r['data']],
                [] if md is None else [[T.md_tree(x) for x in md]]]
    return [ax('observation', 'omd'), ax('sample', 'smd'), cd.ttype(allr['type'])]


def encode(c):
    try:
        a = art(c)
    except Exception:           # run_impl reports 'crash' for the same case
        return [4, [], 0, []]
    cd = _coder(c)
    k = c['kind']
    if k == 'h5all':
        return [0, _file_tree(cd, a)]
    ids = [cd.id(i) for i in c['ids']]
    if k in ('h5', 'cmd_h5'):
        return [1, _file_tree(cd, a), AX[c['axis']], ids]
    if k == 'h5nomd':
        return [2, _file_tree(cd, a), AX[c['axis']], ids]
    if k == 'h5handle':
        return [7, _file_tree(cd, a), AX[c['axis']], ids]
    if k == 'json':
        return [3, cd.table(a['json_all']), AX[c['axis']], ids]
    if k == 'cli_h5':
        known = c['spec']['oids'] if c['axis'] == 'observation' else c['spec']['sids']
        return [5, _file_tree(cd, a), AX[c['axis']], [ord(ch) for ch in ids_file_text(c)],
                [[[ord(ch) for ch in i], cd.id(i)] for i in known]]
    if k == 'cli_json':
        return [6, [ord(ch) for ch in a['text'][c['ser']]], AX[c['axis']], [ord(ch) for ch in ids_file_text(c)]]
    return [4, [ord(ch) for ch in a['text'][c['ser']]], AX[c['axis']], [[ord(ch) for ch in i] for i in c['ids']]]


def decode(tree, c):
    cd = _coder(c)
    k = c['kind']
    if k == 'h5all':
        return {'table': T.norm_snap(cd.untable(tree[0])), 'wf': bool(tree[1])}
    if k == 'json':
        return ['ok', T.norm_snap(cd.untable(tree))]
    if tree[0] == -1:
        return ['err', tree[1]]
    if k in SLICER:
        return ['text', ''.join(chr(x) for x in tree[1])]
    return ['ok', T.norm_snap(cd.untable(tree[1]))]


# ---------------------------------------------------------------- oracle (the property text, no model involved)
def _drop_zero(snap, axis):
    """remove the vectors of `axis` that are all zero (plain python on a snapshot)"""
    s = dict(snap)
    M = s['mat']
    if axis == 'observation':
        keep = [i for i in range(len(s['oids'])) if any(v != 0 for v in (M[i] if i < len(M) else []))]
        s['oids'] = [s['oids'][i] for i in keep]
        s['mat'] = [M[i] for i in keep]
        if s['omd'] is not None:
            s['omd'] = [s['omd'][i] for i in keep]
    else:
        keep = [j for j in range(len(s['sids'])) if any(row[j] != 0 for row in M)]
        s['sids'] = [s['sids'][j] for j in keep]
        s['mat'] = [[row[j] for j in keep] for row in M]
        if s['smd'] is not None:
            s['smd'] = [s['smd'][j] for j in keep]
    return s


def reference(c):
    """load everything with the library, Table.filter to the requested ids, then what the variant documents"""
    a = art(c)
    k, axis = c['kind'], c['axis']
    if k in ('json',) + SLICER:
        full = parse_table(a['text']['lib'])
    else:
        with h5py.File(a['path'], 'r') as f:
            full = Table.from_hdf5(f)
    have = set(str(i) for i in full.ids(axis=axis))
    known = [i for i in c['ids'] if i in have]
    ref = T.snapshot(full.filter(known, axis=axis, inplace=False))
    if k in DROPS:
        ref = _drop_zero(ref, OTHER[axis])
    if k == 'h5nomd':
        ref['omd'] = ref['smd'] = None
        ref['type'] = None
    return T.norm_snap(ref), have


def _same(x, y):
    from .core import canon
    x, y = canon(x), canon(y)
    for s in (x, y):
        for mk in ('omd', 'smd'):
            # metadata none of whose entries holds anything IS "no metadata" (constructor / filter rule, 16e406b1)
            if s[mk] is not None and all(not m for m in s[mk]):
                s[mk] = None
    return x == y


def oracle(c, obs):
    if isinstance(obs, list) and obs and obs[0] == 'crash':
        return ['C14: harness could not prepare the files: %s' % obs]
    k = c['kind']
    if k == 'h5all':
        return [] if obs.get('wf') else ['C14: stored file does not meet the well-formedness the theorems assume']
    if len(set(c['ids'])) != len(c['ids']) or not c['ids']:
        return []        # a request that is empty or repeats an id is outside the property's domain
                         # (the model is still compared with the code on it)
    ref, have = reference(c)
    unknown = [i for i in c['ids'] if i not in have]
    what = '%s axis=%s ids=%s%s%s' % (k, c['axis'], c['ids'], ' ser=' + c['ser'] if k in SLICER else '',
                                     ' ids-file=' + c.get('idsfile', 'plain') if k.startswith('cli_') else '')
    if unknown and k in REFUSES:
        if obs[0] != 'err':
            return ['C14 refusal: %s names unknown id(s) %s but was not refused' % (what, unknown)]
        return []
    if obs[0] == 'err':
        return ['C14 subset != read-all-then-filter: %s raised (error code %s) where filtering the whole table succeeds'
                % (what, obs[1])]
    if k in SLICER:
        a = art(c)
        try:
            got = T.norm_snap(T.snapshot(parse_table(obs[1])))
        except Exception as e:
            return ['C14 subset-table output unusable: %s wrote a document that cannot be loaded (%s: %s)'
                    % (what, type(e).__name__, str(e)[:80])]
        fails = []
        try:
            din, dout = json.loads(a['text'][c['ser']]), json.loads(obs[1])
            for hk in HEADER_KEYS:
                if din.get(hk) != dout.get(hk):
                    fails.append('C14 subset-table header: %s changed %r from %r to %r' % (what, hk, din.get(hk), dout.get(hk)))
            if dout.get('shape') != [len(ref['oids']), len(ref['sids'])]:
                fails.append('C14 subset-table shape: %s wrote shape %r for %d x %d ids'
                             % (what, dout.get('shape'), len(ref['oids']), len(ref['sids'])))
        except ValueError as e:   # pragma: no cover (parse_table succeeded)
            fails.append('C14 subset-table output is not JSON: %s' % e)
        if not _same(got, ref):
            fails.append('C14 subset != read-all-then-filter: %s gave %s, expected %s' % (what, _brief(got), _brief(ref)))
        return fails[:3]
    if not _same(obs[1], ref):
        return ['C14 subset != read-all-then-filter%s: %s gave %s, expected %s'
                % (' then drop emptied vectors' if k in DROPS else '', what, _brief(obs[1]), _brief(ref))]
    return []


def _brief(s):
    return json.dumps({'oids': s['oids'], 'sids': s['sids'], 'mat': s['mat'], 'omd': s['omd'], 'smd': s['smd'],
                       'type': s['type']}, default=str)[:400]


# ---------------------------------------------------------------- generation
def _subsets(rng, ids, tier):
    n = len(ids)
    if n <= 4:
        out = [list(s) for r in range(1, n + 1) for s in itertools.combinations(ids, r)]
    else:
        out = [list(ids)]
        seen = {tuple(ids)}
        want = 8 if tier == 'quick' else 16
        tries = 0
        while len(out) < want and tries < 200:
            tries += 1
            s = [i for i in ids if rng.random() < 0.5]
            if s and tuple(s) not in seen:
                seen.add(tuple(s))
                out.append(s)
    for s in out:
        rng.shuffle(s)            # the caller's order is irrelevant
    return out


ALL_READERS = ('h5', 'h5handle', 'h5nomd', 'cmd_h5', 'json', 'cmd_json')
H5_READERS = ('h5', 'h5handle', 'h5nomd', 'cmd_h5')


def cases_for(rng, spec, gen_by, tier, readers=None):
    readers = tuple(readers or ALL_READERS)
    plain = [k for k in readers if k != 'cmd_json']
    slicer = 'cmd_json' in readers
    base = {'spec': spec, 'gen': gen_by}
    if 'h5' in readers:
        yield dict(base, kind='h5all')
    for axis in ('observation', 'sample'):
        ids = spec['oids'] if axis == 'observation' else spec['sids']
        for n_sub, sub in enumerate(_subsets(rng, ids, tier)):
            for n_k, k in enumerate(plain):
                # the request as list / tuple / set / dict view / generator / numpy array, in rotation
                types = CTYPES if k in H5_READERS else ['list', 'tuple', 'set', 'array']
                yield dict(base, kind=k, axis=axis, ids=list(sub), ctype=types[(n_sub + n_k + len(ids)) % len(types)])
            if slicer:
                for ser in SERS:
                    yield dict(base, kind='cmd_json', axis=axis, ids=list(sub), ser=ser)
        # requests naming an id that is not in the file
        some = list(ids[:rng.randint(0, len(ids))])
        bad = some + [UNKNOWN]
        rng.shuffle(bad)
        for n_k, k in enumerate(plain):
            yield dict(base, kind=k, axis=axis, ids=list(bad),
                       ctype=CTYPES[(n_k + len(ids)) % len(CTYPES)] if k in H5_READERS else 'list')
        ser = rng.choice(SERS)
        if slicer:
            yield dict(base, kind='cmd_json', axis=axis, ids=list(bad), ser=ser)
        # unknown ids that are near misses of stored ones: a stored id of maximal length plus extra characters
        # (a reader that cuts the request to the stored fixed width would take it for the stored id), a proper
        # prefix of a stored id, a stored id in another case; the id they resemble is NOT part of the request
        longest = max(ids, key=len)
        near = [longest + '0', longest + longest]
        if len(longest) > 1 and longest[:-1] not in ids:
            near.append(longest[:-1])
        if longest.swapcase() not in ids:
            near.append(longest.swapcase())
        rest = [i for i in ids if i != longest]
        for j, miss in enumerate(near):
            if miss in ids:
                continue
            req = rest[:rng.randint(0, len(rest))] + [miss]
            rng.shuffle(req)
            for k in plain:
                yield dict(base, kind=k, axis=axis, ids=list(req))
            if slicer:
                yield dict(base, kind='cmd_json', axis=axis, ids=list(req), ser=SERS[j % len(SERS)])
        # an id of the OTHER axis is unknown on this one
        oth = spec['sids'] if axis == 'observation' else spec['oids']
        if oth and oth[0] not in ids:
            for k in ('h5', 'h5nomd'):
                if k in readers:
                    yield dict(base, kind=k, axis=axis, ids=[oth[0]])
        # the real command (`biom subset-table`, ids read from a file) on a share of the requests
        for c in cli_requests(rng, base, axis, ids, 'cmd_h5' in readers, slicer):
            yield c


def cli_requests(rng, base, axis, ids, h5, js, every=False):
    good = [i for i in ids if addressable(i)]
    if not good:
        return
    if every and len(good) <= 4:
        reqs = [list(x) for r in range(1, len(good) + 1) for x in itertools.combinations(good, r)]
    else:
        reqs = [[good[0]], list(good)]
        if len(good) > 2:
            reqs.append(rng.sample(good, rng.randint(2, len(good) - 1)))
    for r in reqs:
        rng.shuffle(r)
    reqs.append(good[:rng.randint(0, len(good))] + [UNKNOWN])
    reqs.append([good[-1] + ' x'])                       # a known id followed by a blank and more: unknown
    for j, req in enumerate(reqs):
        style = IDS_STYLES[(j + len(ids)) % 3]
        if h5:
            yield dict(base, kind='cli_h5', axis=axis, ids=list(req), idsfile=style)
        if js:
            yield dict(base, kind='cli_json', axis=axis, ids=list(req), idsfile=style, ser=SERS[(j + len(ids)) % 4])


BLANK_IDS = ['gut', 'gut 2', 'gut 2 b', 'skin 1', 'a  b', 'x y z', 'gut\u00a02', 'tongue', '2', 'gut 2 #c', "o'ral 1"]


def blank_id_cases(rng, tier):
    """ids containing blanks, some of whose first blank-separated token is an id as well ('gut 2' / 'gut'):
    every subset through the real command (both inputs, three ids-file styles) and through the direct readers"""
    for i in range(5 if tier == 'quick' else 50):
        spec = T.rand_spec(rng, max_r=4, max_c=4, alphabet='short', density=rng.choice([0.6, 1.0]))
        pool = list(BLANK_IDS)
        rng.shuffle(pool)
        spec['oids'] = pool[:len(spec['oids'])]
        rng.shuffle(pool)
        spec['sids'] = pool[:len(spec['sids'])]
        base = {'spec': spec, 'gen': 'g', 'stream': 'ids-with-blanks'}
        yield dict(base, kind='h5all')
        for axis in ('observation', 'sample'):
            ids = spec['oids'] if axis == 'observation' else spec['sids']
            for c in cli_requests(rng, base, axis, ids, True, True, every=True):
                yield c
            for sub in _subsets(rng, ids, tier)[:6]:
                for k in ('h5', 'h5nomd', 'cmd_h5', 'json'):
                    yield dict(base, kind=k, axis=axis, ids=list(sub))
                yield dict(base, kind='cmd_json', axis=axis, ids=list(sub), ser='lib')


def partial_md_cases(rng, tier):
    """JSON documents in which only some ids carry metadata (the HDF5 writer refuses such tables): a subset
    may keep only ids without metadata, and filter then leaves no metadata at all"""
    for i in range(8 if tier == 'quick' else 80):
        spec = T.rand_spec(rng, max_r=4, max_c=4, md='partial', alphabet=rng.choice(['short', 'short', 'latin1']))
        for c in cases_for(rng, spec, 'g', tier, readers=('json', 'cmd_json')):
            yield dict(c, stream='partial-metadata')


SPICE = [']', '[', '}', '{', '"', '\\', '],[', '"]', '\\"', "{'", '\t', ', ', ':"']


def spice(rng, spec):
    """brackets, braces, quotes, backslashes and separators inside ids and metadata strings (F34, repaired):
    every id / metadata value gets one of them with probability 1/2, at a random position"""
    def mix(sx):
        if rng.random() < 0.5:
            k = rng.randint(0, len(sx))
            return sx[:k] + rng.choice(SPICE) + sx[k:]
        return sx

    def uniq(ids):
        out = []
        for i in ids:
            j = mix(i)
            out.append(j if j not in out and j not in ids else i)
        return out

    def md(m):
        if m is None:
            return None
        return [None if x is None else {k: (mix(v) if isinstance(v, str) else
                                            [mix(e) for e in v] if isinstance(v, list) else v)
                                        for k, v in x.items()} for x in m]
    return dict(spec, oids=uniq(spec['oids']), sids=uniq(spec['sids']), omd=md(spec.get('omd')), smd=md(spec.get('smd')))


def gen(rng, tier):
    for c in wide_cases(rng, tier):
        yield c
    for c in partial_md_cases(rng, tier):
        yield c
    for c in blank_id_cases(rng, tier):
        yield c
    for c in empty_axis_cases(rng, tier):
        yield c
    n = 50 if tier == 'quick' else 500
    for i in range(n):
        big = rng.random() < 0.35
        spec = T.rand_spec(rng, max_r=5 if big else 4, max_c=5 if big else 4)
        gen_by = rng.choice(GENS)
        try:
            art({'spec': spec, 'gen': gen_by})
        except Exception:        # the library cannot write this table (other properties' business)
            continue
        if rng.random() < 0.3:
            spec = spice(rng, spec)
        if rng.random() < 0.3:
            spec = tinyfy(rng, spec)
        if rng.random() < 0.3:
            zeros = [[r, k] for r, row in enumerate(spec['mat']) for k, v in enumerate(row) if v == 0]
            if zeros:
                spec = dict(spec, zeroed=rng.sample(zeros, min(len(zeros), rng.randint(1, 3))))
        if risky_mdkey(spec):      # known finding F35: never produced by rand_spec, kept for safety
            for c in cases_for(rng, spec, gen_by, tier, readers=('h5', 'h5handle', 'h5nomd', 'cmd_h5', 'json')):
                yield c
            continue
        for c in cases_for(rng, spec, gen_by, tier):
            yield c


def wide_cases(rng, tier):
    """axes with 9..12 ids: kept indices >= 8 (python iterates {8, 1} as 8, 1) and two-digit indices
    ('10' < '9' as text); small subsets, the slicer on all serialisations, the HDF5 readers once"""
    for i in range(4 if tier == 'quick' else 40):
        wide_obs = i % 2 == 0
        spec = T.rand_spec(rng, min_r=9 if wide_obs else 1, max_r=12 if wide_obs else 3,
                           min_c=1 if wide_obs else 9, max_c=3 if wide_obs else 12,
                           density=rng.choice([0.4, 0.8]), alphabet='short', md=rng.choice(['none', 'group']))
        axis = 'observation' if wide_obs else 'sample'
        ids = spec['oids'] if wide_obs else spec['sids']
        base = {'spec': spec, 'gen': 'g', 'stream': 'wide'}
        yield dict(base, kind='h5all')
        subs = [[ids[-1], ids[1]], [ids[8], ids[0], ids[-1]], list(ids)]
        for _ in range(6):
            subs.append(rng.sample(ids, rng.randint(2, 4)))
        subs.append([x for x in ids if rng.random() < 0.6] or [ids[0]])
        for sub in subs:
            for ser in SERS:
                yield dict(base, kind='cmd_json', axis=axis, ids=list(sub), ser=ser)
            for k in ('h5', 'h5nomd', 'json'):
                yield dict(base, kind=k, axis=axis, ids=list(sub))


TINY = [1e-9, 4e-9, -1e-9, 4e-12, 1e-300, -1e-300, 5e-324, 2.2250738585072014e-308, 1e-310, 1e-8, 2.5e-170]


def tinyfy(rng, spec):
    """very small magnitudes (down to denormals) in place of about half of the non-zero entries"""
    return dict(spec, mat=[[rng.choice(TINY) if v != 0 and rng.random() < 0.5 else v for v in row] for row in spec['mat']])


def empty_axis_cases(rng, tier):
    """k x 0 and 0 x k tables (one axis emptied by a filter before writing): requests on the axis that has ids,
    every reader incl. the real command; one unknown-id request on each axis"""
    for i in range(6 if tier == 'quick' else 60):
        spec = T.rand_spec(rng, max_r=4, max_c=4, alphabet=rng.choice(['short', 'short', 'latin1']),
                           md=rng.choice(['none', 'text', 'group']))
        empty = 'sample' if i % 2 == 0 else 'observation'
        if empty == 'sample':
            spec.update(sids=[], mat=[[] for _ in spec['oids']], smd=None)
        else:
            spec.update(oids=[], mat=[], omd=None)
        spec['layout'] = ['dense']
        axis = OTHER[empty]
        ids = spec['oids'] if axis == 'observation' else spec['sids']
        base = {'spec': spec, 'gen': 'g', 'stream': 'one-empty-axis'}
        yield dict(base, kind='h5all')
        subs = _subsets(rng, ids, tier)
        for n_sub, sub in enumerate(subs):
            for n_k, k in enumerate(('h5', 'h5handle', 'h5nomd', 'cmd_h5', 'json')):
                yield dict(base, kind=k, axis=axis, ids=list(sub), ctype=CTYPES[(n_sub + n_k) % 4])
            yield dict(base, kind='cmd_json', axis=axis, ids=list(sub), ser=SERS[n_sub % 4])
        for c in cli_requests(rng, base, axis, ids, True, True):
            yield c
        for ax in (axis, empty):
            for k in ('h5', 'h5handle', 'h5nomd', 'cmd_h5', 'json'):
                yield dict(base, kind=k, axis=ax, ids=[UNKNOWN])
            yield dict(base, kind='cmd_json', axis=ax, ids=[UNKNOWN], ser='lib')


def nontrivial(c):
    if c['kind'] == 'h5all':
        return False
    ids = c['spec']['oids'] if c['axis'] == 'observation' else c['spec']['sids']
    if any(i not in ids for i in c['ids']):
        return True
    return len(ids) >= 2 and 0 < len(set(c['ids'])) < len(ids)


def _subset_matrix(c):
    spec = c['spec']
    M = spec['mat']
    if c['axis'] == 'observation':
        rows = [i for i, o in enumerate(spec['oids']) if o in c['ids']]
        return [M[i] for i in rows]
    cols = [j for j, s in enumerate(spec['sids']) if s in c['ids']]
    return [[row[j] for j in cols] for row in M]


def _risky_strings(spec):
    """strings that end up inside the rows / columns arrays of the JSON document"""
    out = list(spec['oids']) + list(spec['sids'])

    def walk(x):
        if isinstance(x, str):
            out.append(x)
        elif isinstance(x, dict):
            for k, v in x.items():
                out.append(str(k)); walk(v)
        elif isinstance(x, (list, tuple)):
            for v in x:
                walk(v)
    walk(spec.get('omd')); walk(spec.get('smd'))
    return out


def classify(c):
    tags = ['kind:' + c['kind']]
    if c.get('stream'):
        tags.append('stream:' + c['stream'])
    try:
        tags.append('layout:' + art(c)['layout'])
        tags.extend(art(c)['stored'])
    except Exception:
        pass
    if c['kind'] == 'h5all':
        return tags
    tags.append('axis:' + c['axis'])
    if c['kind'] in SLICER:
        tags.append('ser:' + c['ser'])
    if c.get('ctype'):
        tags.append('request-as:' + c['ctype'])
    if c['spec'].get('zeroed'):
        tags.append('table-built-with-stored-zeros')
    if any(v != 0 and abs(v) <= 1e-8 for row in c['spec']['mat'] for v in row):
        tags.append('values:tiny-magnitudes')
    if c['kind'].startswith('cli_'):
        tags.append('ids-file:' + c.get('idsfile', 'plain'))
        if any(' ' in i for i in c['ids']):
            tags.append('ids-file:id-with-blank')
    ids = c['spec']['oids'] if c['axis'] == 'observation' else c['spec']['sids']
    if any(i not in ids for i in c['ids']):
        tags.append('request:unknown-id')
    else:
        tags.append('request:%d-of-%d' % (len(c['ids']), len(ids)))
        sub = _subset_matrix(c)
        if c['axis'] == 'observation':
            emptied = any(all(r[j] == 0 for r in sub) and any(r[j] != 0 for r in c['spec']['mat'])
                          for j in range(len(c['spec']['sids'])))
        else:
            emptied = any(all(v == 0 for v in r) and any(v != 0 for v in full)
                          for r, full in zip(sub, c['spec']['mat']))
        if emptied:
            tags.append('subset-empties-other-axis-vectors')
        if all(v == 0 for r in sub for v in r):
            tags.append('subset-all-zero')
    if all(v == 0 for r in c['spec']['mat'] for v in r):
        tags.append('table-all-zero')
    if any(any(ch in sx for ch in '[]{}"\\') for sx in _risky_strings(c['spec'])):
        tags.append('strings:brackets-quotes-backslashes-in-rows-or-columns')
    return tags


def shrink(c):
    if c['kind'] == 'h5all':
        return
    spec = c['spec']
    r, k = len(spec['oids']), len(spec['sids'])

    def without(axis, i):
        s = dict(spec)
        if axis == 'observation':
            s['oids'] = spec['oids'][:i] + spec['oids'][i + 1:]
            s['mat'] = spec['mat'][:i] + spec['mat'][i + 1:]
            if spec.get('omd') is not None:
                s['omd'] = spec['omd'][:i] + spec['omd'][i + 1:]
        else:
            s['sids'] = spec['sids'][:i] + spec['sids'][i + 1:]
            s['mat'] = [row[:i] + row[i + 1:] for row in spec['mat']]
            if spec.get('smd') is not None:
                s['smd'] = spec['smd'][:i] + spec['smd'][i + 1:]
        s['layout'] = ['dense']
        return s
    for axis, n in (('observation', r), ('sample', k)):
        if n > 1:
            for i in range(n):
                s = without(axis, i)
                gone = (spec['oids'] if axis == 'observation' else spec['sids'])[i]
                ids = [x for x in c['ids'] if not (axis == c['axis'] and x == gone)]
                if ids:
                    yield dict(c, spec=s, ids=ids)
    if len(c['ids']) > 1:
        for i in range(len(c['ids'])):
            yield dict(c, ids=c['ids'][:i] + c['ids'][i + 1:])
    if spec.get('layout') != ['dense']:
        yield dict(c, spec=dict(spec, layout=['dense']))
    if spec.get('omd') is not None:
        yield dict(c, spec=dict(spec, omd=None))
    if spec.get('smd') is not None:
        yield dict(c, spec=dict(spec, smd=None))
    if c.get('gen', 'g') != 'g':
        yield dict(c, gen='g')
    if spec.get('type') is not None:
        yield dict(c, spec=dict(spec, type=None))
    # plain ids
    ren_o = {o: 'o%d' % i for i, o in enumerate(spec['oids'])}
    ren_s = {s: 's%d' % i for i, s in enumerate(spec['sids'])}
    if any(k2 != v for k2, v in list(ren_o.items()) + list(ren_s.items())):
        ren = ren_o if c['axis'] == 'observation' else ren_s
        yield dict(c, spec=dict(spec, oids=list(ren_o.values()), sids=list(ren_s.values())),
                   ids=[ren.get(i, i) for i in c['ids']])
    # small values
    if any(v not in (0.0, 1.0) for row in spec['mat'] for v in row):
        yield dict(c, spec=dict(spec, mat=[[1.0 if v else 0.0 for v in row] for row in spec['mat']]))


# ---------------------------------------------------------------- known-finding signatures
def _known_ids_only(c):
    ids = c['spec']['oids'] if c['axis'] == 'observation' else c['spec']['sids']
    return all(i in ids for i in c['ids'])


def risky_mdkey(spec):
    """F35: observation metadata with a key named "columns" (found before the real top-level key)"""
    found = []

    def walk(x):
        if isinstance(x, dict):
            for k, v in x.items():
                found.append(str(k)); walk(v)
        elif isinstance(x, (list, tuple)):
            for v in x:
                walk(v)
    walk(spec.get('omd'))
    return 'columns' in found


def sig_md_key(c, io, mo, fails):
    return c['kind'] in SLICER and bool(fails) and _known_ids_only(c) and risky_mdkey(c['spec'])


# keys = ids in known_findings.jsonl.  core.run_check accepts a match only when the model reproduces
# the implementation's observable, so a slicer failure of any other origin stays a violation.
SIGNATURES = {'F35': sig_md_key}
